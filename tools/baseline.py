#!/usr/bin/env python3
"""Run the repository's test suite (guard off) and compare with /root/.vp/BASELINE.json stable_pass."""
import json, subprocess, sys, os
env = dict(os.environ, GOFLAGS="-mod=mod", GOPROXY="off", GOSUMDB="off", GOTOOLCHAIN="local")
# private port range for the suite's in-process test servers (other jobs in this sandbox may run the suite too)
env.setdefault("TEST_BASEPORT", "21900")
env.setdefault("TEST_BASEPORT_SMTP", "25900")
base = json.load(open("/root/.vp/BASELINE.json"))
want = set(base["stable_pass"])
p = subprocess.run(["go", "test", "-json", "-vet=off", "-count=1", "-timeout", "25m", "./..."], cwd="/repo", env=env, capture_output=True, text=True)
passed = set()
for line in p.stdout.splitlines():
    try:
        ev = json.loads(line)
    except Exception:
        continue
    if ev.get("Action") == "pass" and ev.get("Test"):
        passed.add(ev["Package"] + "::" + ev["Test"])
missing = sorted(want - passed)
print(f"stable_pass={len(want)} passed_now={len(passed)} missing={len(missing)}")
try:
    for m in missing[:40]:
        print("  MISSING", m)
except BrokenPipeError:
    pass
sys.exit(1 if missing else 0)
