#!/bin/bash
# usage: witness.sh <repo dir> <pkg dir relative to repo, "." for root> <TestName regexp> <witness test files...>
# Runs in-package tests injected with -overlay (nothing is written to the repo).
set -u
export GOFLAGS=-mod=mod GOPROXY=off GOSUMDB=off GOTOOLCHAIN=local
repo=$1; pkg=$2; name=$3; shift 3
tmp=$(mktemp -d)
trap 'rm -rf "$tmp"' EXIT
{
  printf '{"Replace": {'
  sep=""
  for f in "$@"; do
    printf '%s"%s/%s/zz_verif_%s": "%s"' "$sep" "$repo" "$pkg" "$(basename "$f")" "$(realpath "$f")"
    sep=", "
  done
  printf '}}'
} > "$tmp/ov.json"
cd "$repo/$pkg" && go test -overlay "$tmp/ov.json" -vet=off -count=1 -timeout 120s -run "$name" . 2>&1
