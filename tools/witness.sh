#!/bin/bash
# usage: witness.sh <repo dir> <pkg dir relative to repo, "." for root> <witness test file> <TestName>
# Runs an in-package test injected with -overlay (nothing is written to the repo).
set -u
export GOFLAGS=-mod=mod GOPROXY=off GOSUMDB=off GOTOOLCHAIN=local
repo=$1; pkg=$2; file=$3; name=$4
tmp=$(mktemp -d)
trap 'rm -rf "$tmp"' EXIT
base=$(basename "$file")
dst="$repo/$pkg/zz_verif_$base"
printf '{"Replace": {"%s": "%s"}}' "$dst" "$file" > "$tmp/ov.json"
cd "$repo/$pkg" && go test -overlay "$tmp/ov.json" -vet=off -count=1 -timeout 120s -run "^$name\$" . 2>&1
