#!/usr/bin/env python3
"""Thorough-tier extras for one property, run after the proof itself:
  * the must-fail / must-pass corpus of the property (tools/selftest.py): the engine must still flip
    exactly the obligations each patch names (guards against vacuous contracts / engine regressions);
  * the witness tests of the property's recorded findings on /repo: a fixed finding must pass,
    an open finding must still fail (canary).
The results are merged into evidence/<id>.json (coverage.selftest, coverage.witnesses).
  * bounded stand-ins (TestVerifBounded<Cxx>… under witness/): exhaustive tests up to a stated bound for functions no
    contract reaches (regexp semantics); labelled bounded in the evidence, a failure is a VIOLATION with the failing input.
Exit 0 = fine, 1 = a bounded stand-in failed, 2 = the check machinery is broken."""
import json, os, subprocess, sys, re
V = "/verif"
prop = sys.argv[1]
rc = 0
r = subprocess.run(["python3", f"{V}/tools/selftest.py", "--prop", prop], capture_output=True, text=True)
lines = [l for l in r.stdout.splitlines() if l.startswith("SELFTEST")]
st = {"patches": len(lines), "ok": sum(1 for l in lines if ": ok" in l), "failed": [l[:200] for l in lines if ": ok" not in l]}
if r.returncode != 0:
    print("CHECK BROKEN: self-test corpus:", *st["failed"], sep="\n  ", file=sys.stderr)
    rc = 2
kf = json.load(open(f"{V}/known_findings.json"))
wit = []
for e in kf:
    if e["property"] != prop or "witness_test" not in e:
        continue
    files = [f"{V}/{f}" for f in e["witness_files"]]
    p = subprocess.run([f"{V}/tools/witness.sh", "/repo", e.get("witness_pkg", "."), "^" + e["witness_test"] + "$"] + files, capture_output=True, text=True)
    passed = p.returncode == 0 and "ok" in p.stdout
    expect_pass = e["status"].startswith("fixed")
    wit.append({"test": e["witness_test"], "finding": e["what"][:120], "status": e["status"], "passed": passed, "as_expected": passed == expect_pass})
    if passed != expect_pass:
        if expect_pass:
            print(f"CHECK BROKEN: witness {e['witness_test']} of a fixed finding fails on the current tree", file=sys.stderr)
        else:
            print(f"NOTE: witness {e['witness_test']} of an open finding no longer fails", file=sys.stderr)
        rc = 2 if expect_pass else rc
# scenario tests of the independent seeded changes of this property, on the unchanged tree: informational
# (they pass without the seeded change; a failure here is printed but decides nothing)
import glob
scen = []
for mp in sorted(glob.glob(f"{V}/seeded/{prop}_seed*/meta.json")):
    d = os.path.dirname(mp)
    try:
        rel = json.load(open(f"{d}/result.json"))["demo_rel_path"]
    except Exception:
        continue
    p = subprocess.run([f"{V}/tools/witness.sh", "/repo", os.path.dirname(rel) or ".", "TestSeed", f"{d}/demo_test.go"], capture_output=True, text=True, errors="replace")
    passed = p.returncode == 0 and "ok" in p.stdout
    scen.append({"seed": os.path.basename(d), "passed_on_current_tree": passed})
    if not passed:
        print(f"NOTE: scenario test of {os.path.basename(d)} fails on the current tree", file=sys.stderr)
# bounded stand-ins (labelled bounded, never counted as proved): tests TestVerifBounded<Cxx>… under witness/
bounded = []
for wf in sorted(glob.glob(f"{V}/witness/*_test.go")):
    src = open(wf).read()
    for tn in re.findall(r"func (TestVerifBounded" + prop + r"\w*)\(", src):
        p = subprocess.run([f"{V}/tools/witness.sh", "/repo", ".", "^" + tn + "$", wf], capture_output=True, text=True, errors="replace")
        passed = p.returncode == 0 and "ok" in p.stdout
        bounded.append({"test": tn, "file": os.path.relpath(wf, V), "passed": passed, "level": "bounded (not a proof)"})
        if not passed:
            os.makedirs(f"{V}/replays", exist_ok=True)
            rp = f"{V}/replays/{prop}-bounded-{tn}.json"
            json.dump({"property": prop, "kind": "bounded", "obligation": tn, "replay": f"tools/witness.sh /repo . '^{tn}$' {os.path.relpath(wf, V)}", "output": (p.stdout + p.stderr)[-3000:]}, open(rp, "w"), indent=1)
            print(f"VIOLATION property={prop} replay={rp}")
            rc = 1
evp = f"{V}/evidence/{prop}.json"
if os.path.exists(evp):
    ev = json.load(open(evp))
    ev["coverage"]["selftest"] = st
    ev["coverage"]["witnesses"] = wit
    ev["coverage"]["seed_scenarios"] = scen
    ev["coverage"]["bounded"] = bounded
    json.dump(ev, open(evp, "w"), indent=1)
print(f"{prop} thorough extras: selftest {st['ok']}/{st['patches']} ok, witnesses {sum(1 for w in wit if w['as_expected'])}/{len(wit)} as expected, seed scenarios {sum(1 for x in scen if x['passed_on_current_tree'])}/{len(scen)} pass")
sys.exit(rc)
