#!/usr/bin/env python3
"""Confirm a seeded change and run the property's check against it.
usage: seedcheck.py <property id> <seed worktree> <name> [--race]
Copies seed.patch + demo test to /verif/seeded/<name>/, then on scratch copies of /repo:
  demo fails with the patch, passes without; stable baseline tests still pass with the patch;
  goverif check --prop <id> on the patched copy -> caught / missed."""
import json, os, subprocess, sys, tempfile, shutil, glob, re
V = "/verif"
prop, wt, name = sys.argv[1], sys.argv[2], sys.argv[3]
race = "--race" in sys.argv
env = dict(os.environ, GOFLAGS="-mod=mod", GOPROXY="off", GOSUMDB="off", GOTOOLCHAIN="local", TEST_BASEPORT="22900", TEST_BASEPORT_SMTP="26900")
dst = f"{V}/seeded/{name}"
os.makedirs(dst, exist_ok=True)
shutil.copy(f"{wt}/seed.patch", f"{dst}/patch.diff")
demos = [p for p in glob.glob(f"{wt}/**/zz_seed_demo_test.go", recursive=True)]
assert demos, "no demo test"
rel = os.path.relpath(demos[0], wt)
shutil.copy(demos[0], f"{dst}/demo_test.go")
tmp = tempfile.mkdtemp(prefix="seed-")
res = {"property": prop, "name": name, "demo_rel_path": rel}
try:
    repo = os.path.join(tmp, "repo")
    subprocess.run(["rsync", "-a", "--exclude", ".git", "/repo/", repo], check=True)
    e2 = dict(env, GOCACHE=os.path.join(tmp, "gocache"))
    shutil.copy(f"{dst}/demo_test.go", os.path.join(repo, rel))
    pkgdir = os.path.join(repo, os.path.dirname(rel))
    def demo():
        cmd = ["go", "test", "-vet=off", "-count=1", "-timeout", "180s", "-run", "Seed", "."]
        if race: cmd.insert(2, "-race")
        r = subprocess.run(cmd, cwd=pkgdir, env=e2, capture_output=True, text=True, errors="replace")
        return r.returncode, (r.stdout + r.stderr)[-1500:]
    rc0, out0 = demo()
    res["demo_without_patch"] = "pass" if rc0 == 0 else "FAIL"
    r = subprocess.run(["patch", "-p1", "-s", "-d", repo, "-i", f"{dst}/patch.diff"], capture_output=True, text=True, errors="replace")
    res["patch_applies"] = r.returncode == 0
    if r.returncode != 0:
        res["patch_error"] = (r.stdout + r.stderr)[-500:]
    r = subprocess.run(["go", "build", "./..."], cwd=repo, env=e2, capture_output=True, text=True, errors="replace")
    res["compiles"] = r.returncode == 0
    rc1, out1 = demo()
    res["demo_with_patch"] = "pass" if rc1 == 0 else "FAIL"
    res["demo_output_with_patch"] = out1[-600:]
    # baseline on the patched copy (without the demo file)
    os.remove(os.path.join(repo, rel))
    base = json.load(open("/root/.vp/BASELINE.json"))
    want = set(base["stable_pass"])
    p = subprocess.run(["go", "test", "-json", "-vet=off", "-count=1", "-timeout", "25m", "./..."], cwd=repo, env=e2, capture_output=True, text=True, errors="replace")
    passed = set()
    for line in p.stdout.splitlines():
        try: ev = json.loads(line)
        except Exception: continue
        if ev.get("Action") == "pass" and ev.get("Test"):
            passed.add(ev["Package"] + "::" + ev["Test"])
    res["baseline_missing_with_patch"] = sorted(want - passed)[:10]
    # the check
    for f in ("verif_contracts.go", "smtp/verif_contracts.go"):
        pass
    r = subprocess.run([f"{V}/bin/goverif", "check", "--prop", prop, "--repo", repo, "--out", tmp], capture_output=True, text=True, errors="replace")
    res["check_exit"] = r.returncode
    res["failed_obligations"] = sorted(set(re.findall(r"failed obligation: (\S+)", r.stdout)))
    if r.returncode not in (0, 1):
        res["check_output"] = (r.stdout + r.stderr)[-1500:]
    res["caught"] = r.returncode == 1
finally:
    shutil.rmtree(tmp, ignore_errors=True)
json.dump(res, open(f"{dst}/result.json", "w"), indent=1)
print(json.dumps({k: v for k, v in res.items() if k != "demo_output_with_patch"}, indent=1))
