#!/usr/bin/env python3
"""Must-fail / must-pass corpus: apply each selftest/*.patch to a scratch copy of /repo,
make sure it still compiles, run the property's check on the copy and compare the
failing obligations with the expectation in selftest/<name>.json.

usage: selftest.py [--prop Cxx] [--tests] [name ...]
  --tests  also run the repository's test suite on the patched copy (it must still pass)
"""
import json, os, subprocess, sys, tempfile, shutil, glob, re
V = os.environ.get("VERIF_DIR", "/verif")
REPO = os.environ.get("VERIF_REPO", "/repo")
env = dict(os.environ, GOFLAGS="-mod=mod", GOPROXY="off", GOSUMDB="off", GOTOOLCHAIN="local")
args = sys.argv[1:]
prop = None
tests = False
record = False
names = []
while args:
    a = args.pop(0)
    if a == "--prop": prop = args.pop(0)
    elif a == "--tests": tests = True
    elif a == "--record": record = True
    else: names.append(a)
from multiprocessing.pool import ThreadPool
import io
def one(meta_path):
    ok = True
    out = io.StringIO()
    def print(*a, **k):
        import builtins; builtins.print(*a, file=out, **k)
    for _ in [0]:
        name = os.path.basename(meta_path)[:-5]
        meta = json.load(open(meta_path))
        if prop and meta["property"] != prop: return True, ""
        if names and name not in names: return True, ""
        tmp = tempfile.mkdtemp(prefix="selftest-")
        try:
            repo = os.path.join(tmp, "repo")
            subprocess.run(["rsync", "-a", "--exclude", ".git", REPO + "/", repo], check=True)
            r = subprocess.run(["patch", "-p1", "-s", "-d", repo, "-i", f"{V}/selftest/{name}.patch"], capture_output=True, text=True)
            if r.returncode != 0:
                print(f"SELFTEST {name}: patch does not apply: {r.stdout}{r.stderr}"); ok = False; continue
            e2 = dict(env, GOCACHE=os.path.join(tmp, "gocache"))
            r = subprocess.run(["go", "build", "./..."], cwd=repo, env=e2, capture_output=True, text=True)
            if r.returncode != 0:
                print(f"SELFTEST {name}: patched tree does not compile\n{r.stderr}"); ok = False; continue
            if tests:
                r = subprocess.run(["go", "test", "-vet=off", "-count=1", "./..."], cwd=repo, env=e2, capture_output=True, text=True)
                fails = [l for l in r.stdout.splitlines() if l.startswith("--- FAIL")]
                print(f"  {name}: test suite on patched copy: {len(fails)} failing top-level tests")
            r = subprocess.run([f"{V}/bin/goverif", "check", "--verif", V, "--prop", meta["property"], "--repo", repo, "--out", tmp], capture_output=True, text=True, env=dict(os.environ))
            failed = set(re.findall(r"failed obligation: (\S+)", r.stdout))
            want = set(meta.get("must_fail", []))
            if record and not want and failed and meta.get("kind", "must-fail") == "must-fail":
                meta["must_fail"] = sorted(failed)[:4]
                json.dump(meta, open(meta_path, "w"), indent=1)
                want = set(meta["must_fail"])
            if meta.get("kind", "must-fail") == "must-pass":
                good = r.returncode == 0
                print(f"SELFTEST {name} [{meta['property']} must-pass]: {'ok' if good else 'FAILED: ' + ', '.join(sorted(failed))}")
            else:
                good = r.returncode == 1 and want <= failed
                extra = failed - want
                print(f"SELFTEST {name} [{meta['property']} must-fail]: {'ok' if good else 'FAILED'} flipped={sorted(failed & want)} missing={sorted(want - failed)} extra={sorted(extra)}")
                if r.returncode not in (0, 1):
                    print(r.stdout[-2000:], r.stderr[-2000:])
            ok = ok and good
        finally:
            shutil.rmtree(tmp, ignore_errors=True)
    return ok, out.getvalue()

res = ThreadPool(int(os.environ.get("SELFTEST_JOBS", "6"))).map(one, sorted(glob.glob(f"{V}/selftest/*.json")))
for okk, txt in res:
    sys.stdout.write(txt)
sys.exit(0 if all(r[0] for r in res) else 1)
