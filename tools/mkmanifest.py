#!/usr/bin/env python3
"""Regenerates /verif/MANIFEST.json from tools/manifest_props.json (claimed checks) and properties.jsonl."""
import json, subprocess
V = "/verif"
ids = [json.loads(l)["id"] for l in open(f"{V}/properties.jsonl")]
props = json.load(open(f"{V}/tools/manifest_props.json"))
hook_commits = [l.split()[0] for l in subprocess.check_output(["git", "-C", "/repo", "log", "--format=%h %s"]).decode().splitlines() if l.split(" ", 1)[1].startswith("verif:")]
m = {
 "version": 1,
 "setup_cmd": "cd /verif/engine && GOFLAGS=-mod=vendor GOPROXY=off GOSUMDB=off GOTOOLCHAIN=local go build -o /verif/bin/goverif .",
 "hooks": {"guard": "verif", "enable": "go build -tags verif (comment-only contract files verif_contracts.go; goverif loads /repo with -tags=verif)",
           "baseline_off_cmd": "cd /repo && go test -vet=off -count=1 -timeout 25m ./...", "source_commits": hook_commits[::-1], "add_only": True},
 "engines": [{"name": "goverif", "path": "/verif/engine", "serves_properties": sorted(props["claimed"].keys()),
              "kind_free_text": "own verification-condition generator over go/ssa (golang.org/x/tools v0.29.0, vendored): per-function contracts (//@ comments in build-tag-guarded files in /repo) -> one SMT-LIB query per obligation -> z3 5.1.0 / z3 4.8.12 / cvc5 1.0"}],
 "checks": [], "not_applicable": [],
 "notes": "Contract-based deductive verification of the real code; see DESIGN.md. A check exits 0 when every claimed obligation discharges, 1 with VIOLATION lines otherwise, 2 when the check itself is broken (contracts no longer attach, vacuous assumptions, engine error).",
}
for i in ids:
    if i in props["claimed"]:
        p = props["claimed"][i]
        m["checks"].append({
            "property_id": i, "quick_cmd": f"./check {i} --tier quick", "thorough_cmd": f"./check {i} --tier thorough",
            "evidence_file": f"evidence/{i}.json", "replay_cmd_template": f"./check {i} --replay {{path}}", "engine": "goverif",
            "level_claimed": {"category": "proof", "text": p["text"], "design_ref": p.get("design_ref", "DESIGN.md section 6, " + i)},
            "level_note": p["note"], "technique": p.get("technique", "contract-based deductive verification: per-function requires/ensures/loop invariants over ghost typestate, VCs from go/ssa discharged by SMT"),
        })
    else:
        m["not_applicable"].append({"property_id": i, "reason": props["not_applicable"].get(i, "check not built yet (see DESIGN.md section 9)")})
json.dump(m, open(f"{V}/MANIFEST.json", "w"), indent=1)
print("checks:", [c["property_id"] for c in m["checks"]])
