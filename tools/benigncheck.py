#!/usr/bin/env python3
"""Run every property check on a behaviour-preserving change: none may report a violation.
usage: benigncheck.py <patch> [<patch> ...]      (patches apply with -p1 to a scratch copy of /repo)
Prints, per patch, the checks that did not exit 0 and the obligations they name."""
import json, os, subprocess, sys, tempfile, shutil, re
from multiprocessing.pool import ThreadPool
V = "/verif"
env = dict(os.environ, GOFLAGS="-mod=mod", GOPROXY="off", GOSUMDB="off", GOTOOLCHAIN="local")
props = os.environ.get("BENIGN_PROPS", "").split() or [c["property_id"] for c in json.load(open(f"{V}/MANIFEST.json"))["checks"]]

def one(patch):
    tmp = tempfile.mkdtemp(prefix="benign-")
    res = {"patch": patch, "bad": {}}
    try:
        repo = os.path.join(tmp, "repo")
        subprocess.run(["rsync", "-a", "--exclude", ".git", "/repo/", repo], check=True)
        r = subprocess.run(["patch", "-p1", "-s", "-d", repo, "-i", os.path.abspath(patch)], capture_output=True, text=True)
        if r.returncode != 0:
            res["error"] = "patch does not apply: " + (r.stdout + r.stderr)[-300:]
            return res
        e2 = dict(env, GOCACHE=os.path.join(tmp, "gocache"))
        r = subprocess.run(["go", "build", "./..."], cwd=repo, env=e2, capture_output=True, text=True)
        if r.returncode != 0:
            res["error"] = "does not compile: " + r.stderr[-300:]
            return res
        for p in props:
            r = subprocess.run([f"{V}/bin/goverif", "check", "--prop", p, "--repo", repo, "--out", tmp], capture_output=True, text=True)
            if r.returncode != 0:
                failed = re.findall(r"failed obligation: (\S+) \(([^)]*)", r.stdout)
                broken = [l for l in (r.stdout + r.stderr).splitlines() if "CHECK BROKEN" in l]
                res["bad"][p] = {"exit": r.returncode, "failed": failed[:8], "broken": broken[:3]}
            notes = [l for l in r.stdout.splitlines() if l.startswith("NOTE:")]
            if notes:
                res.setdefault("notes", set()).update(notes)
    finally:
        shutil.rmtree(tmp, ignore_errors=True)
    return res

results = ThreadPool(5).map(one, sys.argv[1:])
ok = True
for r in results:
    name = r["patch"]
    if "error" in r:
        print(f"BENIGN {name}: SKIPPED ({r['error']})")
        continue
    if not r["bad"]:
        print(f"BENIGN {name}: all {len(props)} checks pass" + (f"  [{len(r.get('notes', []))} notes]" if r.get("notes") else ""))
    else:
        ok = False
        print(f"BENIGN {name}: FALSE ALARM in {sorted(r['bad'])}")
        for p, b in sorted(r["bad"].items()):
            print(f"    {p} exit={b['exit']} {b['failed']} {b['broken']}")
    for n in sorted(r.get("notes", [])):
        print("    " + n[:200])
sys.exit(0 if ok else 1)
