#!/usr/bin/env python3
"""Re-resolve the commit hashes in known_findings.json by commit subject (after a history rewrite in /repo)."""
import json, subprocess
def git(*a): return subprocess.check_output(["git", "-C", "/repo"] + list(a)).decode()
log = [l.split(" ", 1) for l in git("log", "--format=%h %s").splitlines()]
kf = json.load(open("/verif/known_findings.json"))
for e in kf:
    if not e["status"].startswith("fixed:"):
        continue
    old = e["status"][6:]
    subj = e.get("fix_subject")
    if not subj:
        try:
            subj = git("show", "-s", "--format=%s", old).strip()
        except Exception:
            print("cannot resolve", old); continue
    e["fix_subject"] = subj
    new = [h for h, s in log if s == subj]
    if not new:
        print("no commit with subject", subj); continue
    if new[0] != old:
        e["status"] = "fixed:" + new[0]
        e["line"] = e["line"].replace(old, new[0])
json.dump(kf, open("/verif/known_findings.json", "w"), indent=1)
print("ok", len(kf), "entries")
