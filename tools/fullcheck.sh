#!/bin/bash
# Everything that must be green before a change to the engine, the prelude, a stdlib spec or a contract file
# is committed: all 20 quick checks on /repo, then the whole must-fail / must-pass corpus.
cd /verif
fail=0
for p in $(python3 -c "import json;print(' '.join(c['property_id'] for c in json.load(open('MANIFEST.json'))['checks']))"); do
  out=$(./check $p 2>&1); rc=$?
  echo "$out" | grep -v '^KNOWN' | tail -1 | cut -c1-160
  [ $rc -ne 0 ] && { echo "   ^^^ exit $rc"; fail=1; }
done
[ "${1:-}" = "--quick" ] && exit $fail
python3 tools/selftest.py > /tmp/fullcheck_selftest.log 2>&1 || fail=1
grep -c ': ok' /tmp/fullcheck_selftest.log
grep SELFTEST /tmp/fullcheck_selftest.log | grep -v ': ok' | cut -c1-300
exit $fail
