#!/bin/bash
# usage: tools/tryseed.sh <Cxx> <seed-dir-name> [binary]   - run a property's check on a scratch copy with the seed applied
prop=$1; seed=$2; bin=${3:-/verif/bin/goverif}
tmp=$(mktemp -d /tmp/tryseed-XXXX)
rsync -a --exclude .git /repo/ $tmp/repo/
patch -p1 -s -d $tmp/repo -i /verif/seeded/$seed/patch.diff || { echo "patch does not apply"; rm -rf $tmp; exit 2; }
$bin check --prop $prop --repo $tmp/repo --out $tmp 2>&1 | grep -E "failed obligation|quick:|BROKEN|error" | head -${LINES_MAX:-12}
rm -rf $tmp
