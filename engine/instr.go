package main

import (
	"fmt"
	"go/ast"
	"go/constant"
	"go/token"
	"go/types"
	"strings"

	"golang.org/x/tools/go/ssa"
)

func deref(t types.Type) types.Type {
	if p, ok := t.Underlying().(*types.Pointer); ok {
		return p.Elem()
	}
	return t
}

// lvalue describes where a pointer-typed SSA value points.
type lvalue struct {
	kind string // "field" (heap[ref]), "elem" (heap[arr][idx]), "ref" (object reference: struct / array)
	heap string
	ref  string
	idx  string
	typ  types.Type // pointee type
}

func isStructT(t types.Type) bool {
	_, ok := t.Underlying().(*types.Struct)
	return ok
}
func isArrayT(t types.Type) bool {
	_, ok := t.Underlying().(*types.Array)
	return ok
}

// addr computes the lvalue of a pointer-typed SSA value.
func (g *Gen) addr(p ssa.Value) lvalue {
	pt, ok := p.Type().Underlying().(*types.Pointer)
	if !ok {
		panic(fmt.Errorf("addr of non-pointer %s : %s", p.Name(), p.Type()))
	}
	elem := pt.Elem()
	switch x := p.(type) {
	case *ssa.FieldAddr:
		st := deref(x.X.Type())
		fld := st.Underlying().(*types.Struct).Field(x.Field)
		base := g.objRef(x.X)
		if isStructT(elem) || isArrayT(elem) {
			return lvalue{kind: "ref", ref: g.subObj(st, fld, base), typ: elem}
		}
		return lvalue{kind: "field", heap: g.fieldHeap(st, fld), ref: base, typ: elem}
	case *ssa.IndexAddr:
		var arr, idx string
		switch xt := x.X.Type().Underlying().(type) {
		case *types.Slice:
			s := g.v(x.X)
			arr = "(sl_arr " + s + ")"
			idx = "(+ (sl_off " + s + ") " + g.v(x.Index) + ")"
			_ = xt
		case *types.Pointer: // pointer to array
			arr = g.objRef(x.X)
			idx = g.v(x.Index)
		}
		if isStructT(elem) || isArrayT(elem) {
			g.declare("elemobj", "(Int Int) Int")
			return lvalue{kind: "ref", ref: "(elemobj " + arr + " " + idx + ")", typ: elem}
		}
		return lvalue{kind: "elem", heap: g.arrHeap(elem), ref: arr, idx: idx, typ: elem}
	}
	if isStructT(elem) || isArrayT(elem) {
		return lvalue{kind: "ref", ref: g.v(p), typ: elem}
	}
	return lvalue{kind: "field", heap: g.cellHeap(elem), ref: g.v(p), typ: elem}
}

// objRef returns the reference (Int term) denoted by a pointer-to-struct/array value.
func (g *Gen) objRef(p ssa.Value) string {
	switch p.(type) {
	case *ssa.FieldAddr, *ssa.IndexAddr:
		lv := g.addr(p)
		if lv.kind == "ref" {
			return lv.ref
		}
	}
	return g.v(p)
}

// subObj is the reference of an embedded struct / array field.
func (g *Gen) subObj(st types.Type, fld *types.Var, base string) string {
	fn := sym("fld." + typeKey(st) + "." + fld.Name())
	inv := fn + ".inv"
	g.declare(fn, "(Int) Int")
	g.declare(inv, "(Int) Int")
	t := "(" + fn + " " + base + ")"
	// ground instances of injectivity / non-nil-ness (a quantified axiom here
	// makes model finding diverge)
	key := "subobj:" + t
	if !g.globals[key] {
		g.globals[key] = true
		g.add(and(eq("("+inv+" "+t+")", base), not(eq(t, "0"))))
	}
	return t
}

func (g *Gen) loadLV(lv lvalue) string {
	switch lv.kind {
	case "field":
		return "(select " + g.heap(lv.heap) + " " + lv.ref + ")"
	case "elem":
		return "(select (select " + g.heap(lv.heap) + " " + lv.ref + ") " + lv.idx + ")"
	}
	panic("loadLV of object reference")
}

func (g *Gen) storeLV(lv lvalue, val string) {
	switch lv.kind {
	case "field":
		g.assignHeap(lv.heap, "(store "+g.heap(lv.heap)+" "+lv.ref+" "+val+")")
	case "elem":
		h := g.heap(lv.heap)
		g.assignHeap(lv.heap, "(store "+h+" "+lv.ref+" (store (select "+h+" "+lv.ref+") "+lv.idx+" "+val+"))")
	default:
		panic("storeLV of object reference")
	}
}

// escapes reports whether a FieldAddr/IndexAddr of cell type is used other than by load/store.
func addrEscapes(v ssa.Value) bool {
	refs := v.Referrers()
	if refs == nil {
		return false
	}
	for _, r := range *refs {
		switch u := r.(type) {
		case *ssa.UnOp:
			if u.Op == token.MUL {
				continue
			}
		case *ssa.Store:
			if u.Addr == v && u.Val != v {
				continue
			}
		case *ssa.DebugRef:
			continue
		case *ssa.FieldAddr, *ssa.IndexAddr:
			continue
		}
		return true
	}
	return false
}

func (g *Gen) nilCheck(ref string, what ssa.Value, pos token.Pos, kinds ...string) {
	// statically non-nil values
	switch what.(type) {
	case *ssa.Alloc, *ssa.Global, *ssa.FieldAddr, *ssa.IndexAddr, *ssa.MakeMap, *ssa.MakeClosure, *ssa.Function:
		return
	}
	if p, ok := what.(*ssa.Parameter); ok && g.fn.Signature.Recv() != nil && len(g.fn.Params) > 0 && g.fn.Params[0] == p {
		// method receivers: the nil check is an obligation at the caller of the method
		// (a nil receiver dereference panics here, but every in-repo call site is checked)
		if g.P.KeyOf[g.fn] != "" {
			g.guard(not(eq(ref, "0")))
			return
		}
	}
	if _, ok := what.(*ssa.FreeVar); ok {
		return
	}
	txt := g.srcOf(pos, kinds...)
	if txt == "" {
		txt = what.Name()
	}
	g.oblige("nil", txt, "", nil, true, not(eq(ref, "0")), pos)
}

func (g *Gen) instr(b *ssa.BasicBlock, in ssa.Instruction) {
	switch v := in.(type) {
	case *ssa.DebugRef:
		return
	case *ssa.Phi:
		if g.heads[b.Index] {
			return // havoc'd in loopHead
		}
		if _, isT := v.Type().(*types.Tuple); isT {
			return
		}
		r := g.v(v)
		for i, e := range v.Edges {
			p := b.Preds[i]
			if _, ok := g.exit[p.Index]; !ok {
				continue
			}
			g.add(implies(g.taken(p, b), eq(r, g.v(e))))
		}
	case *ssa.Alloc:
		r := g.v(v)
		al := g.heap("alloc")
		elem := deref(v.Type())
		g.guard(and(not(eq(r, "0")), "(> (atime "+r+") "+al+")"))
		g.assignHeap("alloc", "(atime "+r+")")
		g.zeroInit(r, elem)
		if _, ok := types.Unalias(elem).(*types.Named); ok {
			g.guard(eq("(dyntype "+r+")", g.typeID(v.Type())))
		}
	case *ssa.FieldAddr:
		g.nilCheck(g.objRef(v.X), v.X, v.Pos(), "sel")
		if !isStructT(deref(v.Type())) && !isArrayT(deref(v.Type())) && addrEscapes(v) {
			g.outOfSub = append(g.outOfSub, "address of field escapes: "+g.P.posString(v.Pos()))
		}
	case *ssa.Field:
		// field of a struct value: projection function on the opaque value
		st := v.X.Type()
		fld := st.Underlying().(*types.Struct).Field(v.Field)
		g.guard(eq(g.v(v), g.valField(st, fld, g.v(v.X))))
	case *ssa.IndexAddr:
		var ln string
		switch xt := v.X.Type().Underlying().(type) {
		case *types.Slice:
			ln = "(sl_len " + g.v(v.X) + ")"
		case *types.Pointer:
			g.nilCheck(g.objRef(v.X), v.X, v.Pos(), "index")
			ln = fmt.Sprint(xt.Elem().Underlying().(*types.Array).Len())
		}
		i := g.v(v.Index)
		txt := g.srcOf(v.Pos(), "index")
		if txt == "" {
			txt = "(implicit)" + v.X.Name() + "[" + v.Index.Name() + "]"
		}
		if !g.implicitIndex(v) {
			g.oblige("bounds", txt, "", nil, true, and("(<= 0 "+i+")", "(< "+i+" "+ln+")"), v.Pos())
		}
		if !isStructT(deref(v.Type())) && !isArrayT(deref(v.Type())) && addrEscapes(v) {
			g.outOfSub = append(g.outOfSub, "address of element escapes: "+g.P.posString(v.Pos()))
		}
	case *ssa.Index:
		if isStringT(v.X.Type()) {
			x, k := g.v(v.X), g.v(v.Index)
			g.oblige("bounds", g.srcOf(v.Pos(), "index"), "", nil, true, and("(<= 0 "+k+")", "(< "+k+" (slen "+x+"))"), v.Pos())
			g.guard(eq(g.v(v), "(sat "+x+" "+k+")"))
			return
		}
		// index of array value or type-param; arrays as values are opaque
		i := g.v(v.Index)
		if at, ok := v.X.Type().Underlying().(*types.Array); ok {
			g.oblige("bounds", g.srcOf(v.Pos(), "index"), "", nil, true, and("(<= 0 "+i+")", fmt.Sprintf("(< %s %d)", i, at.Len())), v.Pos())
		}
		g.guard(g.typeFacts(g.v(v), v.Type()))
	case *ssa.UnOp:
		g.unop(v)
	case *ssa.BinOp:
		g.binop(v)
	case *ssa.Store:
		g.store(v)
	case *ssa.Slice:
		g.sliceInstr(v)
	case *ssa.MakeSlice:
		r := g.v(v)
		ln, cp := g.v(v.Len), g.v(v.Cap)
		g.oblige("negmake", g.srcOf(v.Pos(), "call"), "", nil, true, and("(<= 0 "+ln+")", "(<= "+ln+" "+cp+")"), v.Pos())
		arr := g.fresh("arr", SInt)
		al := g.heap("alloc")
		g.guard(and(not(eq(arr, "0")), "(> (atime "+arr+") "+al+")"))
		g.assignHeap("alloc", "(atime "+arr+")")
		et := v.Type().Underlying().(*types.Slice).Elem()
		ah := g.arrHeap(et)
		g.guard(g.zeroArray("(select "+g.heap(ah)+" "+arr+")", sortOf(et)))
		g.guard(and(eq("(sl_arr "+r+")", arr), eq("(sl_off "+r+")", "0"), eq("(sl_len "+r+")", ln), eq("(sl_cap "+r+")", cp)))
	case *ssa.MakeMap:
		r := g.v(v)
		al := g.heap("alloc")
		g.guard(and(not(eq(r, "0")), "(> (atime "+r+") "+al+")"))
		g.assignHeap("alloc", "(atime "+r+")")
		mt := v.Type().Underlying().(*types.Map)
		has, _ := g.mapHeaps(mt)
		g.guard(eq("(select "+g.heap(has)+" "+r+")", "((as const (Array "+string(sortOf(mt.Key()))+" Bool)) false)"))
		g.guard(eq("(maplen "+r+")", "0"))
		// ghost state of a fresh map starts at its zero value
		for name := range g.S.Ghost {
			if _, known := g.heapSort["G."+name]; !known {
				continue
			}
			h, gs, _ := g.ghostHeap(name)
			g.guard(eq("(select "+g.heap(h)+" "+r+")", zeroOf(gs)))
		}
	case *ssa.MakeChan:
		g.outOfSub = append(g.outOfSub, "MakeChan")
	case *ssa.MakeInterface:
		g.makeInterface(v)
	case *ssa.MakeClosure:
		r := g.v(v)
		g.closures[v] = v
		al := g.heap("alloc")
		g.guard(and(not(eq(r, "0")), "(> (atime "+r+") "+al+")"))
		g.assignHeap("alloc", "(atime "+r+")")
	case *ssa.ChangeInterface:
		g.guard(eq(g.v(v), g.v(v.X)))
	case *ssa.ChangeType:
		g.guard(eq(g.v(v), g.v(v.X)))
		if mc, ok := v.X.(*ssa.MakeClosure); ok {
			g.closures[v] = mc
		} else if mc, ok := g.closures[v.X]; ok {
			g.closures[v] = mc
		}
	case *ssa.Convert:
		g.convert(v)
	case *ssa.SliceToArrayPointer, *ssa.MultiConvert:
		g.outOfSub = append(g.outOfSub, in.String())
	case *ssa.TypeAssert:
		g.typeAssert(v)
	case *ssa.Extract:
		r := g.v(v)
		g.guard(eq(r, g.tupleComp(v.Tuple, v.Index)))
	case *ssa.Lookup:
		g.lookup(v)
	case *ssa.MapUpdate:
		g.mapUpdate(v)
	case *ssa.Range:
		// iterator value is opaque
	case *ssa.Next:
		g.next(v)
	case *ssa.Call:
		g.call(v, v)
	case *ssa.Defer:
		g.defers = append(g.defers, v)
	case *ssa.RunDefers:
		g.runDefers()
	case *ssa.Return:
		if g.parent != nil {
			rt := inlineRet{guard: g.at(g.curBlk), state: copyState(g.cur)}
			for _, x := range v.Results {
				rt.results = append(rt.results, g.v(x))
			}
			g.inlRets = append(g.inlRets, rt)
			return
		}
		g.ret(v)
	case *ssa.If, *ssa.Jump:
	case *ssa.Panic:
		g.oblige("panic", g.srcOf(v.Pos(), "call"), "", nil, true, "false", v.Pos())
	case *ssa.Go:
		g.outOfSub = append(g.outOfSub, "go statement")
	case *ssa.Select:
		g.outOfSub = append(g.outOfSub, "select statement")
	case *ssa.Send:
		g.outOfSub = append(g.outOfSub, "channel send")
	default:
		g.outOfSub = append(g.outOfSub, fmt.Sprintf("unsupported instruction %T", in))
	}
}

// implicitIndex: IndexAddr generated by the compiler for composite literals /
// varargs (constant index into a fresh array of known length) needs no obligation.
func (g *Gen) implicitIndex(v *ssa.IndexAddr) bool {
	c, ok := v.Index.(*ssa.Const)
	if !ok || c.Value == nil {
		return false
	}
	al, ok := v.X.(*ssa.Alloc)
	if !ok {
		return false
	}
	at, ok := deref(al.Type()).Underlying().(*types.Array)
	if !ok {
		return false
	}
	i, exact := constant.Int64Val(c.Value)
	return exact && i >= 0 && i < at.Len()
}

// zeroArray states that an (Array Int s) term holds the zero value everywhere. Constant-array
// literals need a value (cvc5 rejects an uninterpreted constant), so Str / Slc arrays use a quantifier.
func (g *Gen) zeroArray(arr string, s Sort) string {
	if s == SInt || s == SBool {
		return eq(arr, "((as const (Array Int "+string(s)+")) "+zeroOf(s)+")")
	}
	return "(forall ((i Int)) (! (= (select " + arr + " i) " + zeroOf(s) + ") :pattern ((select " + arr + " i))))"
}

func (g *Gen) valField(st types.Type, fld *types.Var, x string) string {
	fn := sym("vfld." + typeKey(st) + "." + fld.Name())
	g.declare(fn, "(Int) "+string(sortOf(fld.Type())))
	return "(" + fn + " " + x + ")"
}

func (g *Gen) zeroInit(r string, t types.Type) { g.zeroInitD(r, t, 0) }

func (g *Gen) zeroInitD(r string, t types.Type, depth int) {
	switch u := t.Underlying().(type) {
	case *types.Struct:
		if depth > 0 && !inRepo(namedPkg(t)) {
			// embedded library structs (mutexes, buffers): opaque apart from their ghost state
			for name := range g.S.Ghost {
				if _, known := g.heapSort["G."+name]; !known {
					continue
				}
				h, s, _ := g.ghostHeap(name)
				g.guard(eq("(select "+g.heap(h)+" "+r+")", zeroOf(s)))
			}
			return
		}
		for i := 0; i < u.NumFields(); i++ {
			f := u.Field(i)
			if isStructT(f.Type()) || isArrayT(f.Type()) {
				g.zeroInitD(g.subObj(t, f, r), f.Type(), depth+1)
				continue
			}
			h := g.fieldHeap(t, f)
			g.guard(eq("(select "+g.heap(h)+" "+r+")", zeroOf(sortOf(f.Type()))))
		}
		// ghost fields of fresh objects start at their zero value (only ghost state this VC mentions)
		for name := range g.S.Ghost {
			if _, known := g.heapSort["G."+name]; !known {
				continue
			}
			h, s, _ := g.ghostHeap(name)
			g.guard(eq("(select "+g.heap(h)+" "+r+")", zeroOf(s)))
		}
	case *types.Array:
		h := g.arrHeap(u.Elem())
		if !isStructT(u.Elem()) {
			g.guard(g.zeroArray("(select "+g.heap(h)+" "+r+")", sortOf(u.Elem())))
		}
	default:
		h := g.cellHeap(t)
		g.guard(eq("(select "+g.heap(h)+" "+r+")", zeroOf(sortOf(t))))
	}
}

// ghostUsed: only ghost fields already mentioned in this function's VC matter.
func (g *Gen) ghostUsed(name string) bool {
	_, ok := g.heapSort["G."+name]
	return ok && g.pass == 2 || g.allMods["G."+name]
}

func (g *Gen) unop(v *ssa.UnOp) {
	switch v.Op {
	case token.NOT:
		g.guard(eq(g.v(v), not(g.v(v.X))))
	case token.SUB:
		g.guard(eq(g.v(v), "(- "+g.v(v.X)+")"))
	case token.XOR:
		g.guard(eq(g.v(v), "(bit.not "+g.v(v.X)+")"))
	case token.ARROW:
		g.outOfSub = append(g.outOfSub, "channel receive")
	case token.MUL:
		if fa, ok := v.X.(*ssa.FieldAddr); ok {
			for _, ff := range g.forbidFields {
				if ff.WriteLock {
					continue
				}
				st := deref(fa.X.Type())
				if sts, ok := st.Underlying().(*types.Struct); ok && typeKey(st) == ff.Struct && sts.Field(fa.Field).Name() == ff.Field {
					g.oblige("reads", g.srcOf(v.Pos(), "sel"), "not-"+ff.Field, []string{g.prop}, false, "false", v.Pos())
				}
			}
		}
		lv := g.addr(v.X)
		g.nilCheck(lv.ref, v.X, v.Pos(), "star", "sel")
		if lv.kind == "ref" {
			// load of a whole struct / array value: opaque value with field projections
			r := g.v(v)
			if st, ok := lv.typ.Underlying().(*types.Struct); ok {
				for i := 0; i < st.NumFields(); i++ {
					f := st.Field(i)
					if isStructT(f.Type()) || isArrayT(f.Type()) {
						continue
					}
					g.guard(eq(g.valField(lv.typ, f, r), "(select "+g.heap(g.fieldHeap(lv.typ, f))+" "+lv.ref+")"))
				}
			}
			return
		}
		r := g.v(v)
		g.guard(eq(r, g.loadLV(lv)))
		g.guard(g.typeFacts(r, v.Type()))
		if gl, ok := v.X.(*ssa.Global); ok && g.P.NonNilGlobals[gl] {
			g.guard(not(eq(r, "0")))
		}
		if gl, ok := v.X.(*ssa.Global); ok {
			if lit, ok := g.P.ConstBytesGlobals[gl]; ok && len(lit) <= 16 {
				facts := []string{eq("(sl_len "+r+")", fmt.Sprint(len(lit))), not(eq("(sl_arr "+r+")", "0"))}
				ah := g.heap(g.arrHeap(types.Typ[types.Uint8]))
				for i := 0; i < len(lit); i++ {
					facts = append(facts, eq(fmt.Sprintf("(select (select %s (sl_arr %s)) (+ (sl_off %s) %d))", ah, r, r, i), fmt.Sprint(int(lit[i]))))
				}
				g.guard(and(facts...))
			}
		}
	}
}

// guardedStore: "guarded by" discipline (C13). A store to a field of a struct type that the property
// declares lock-protected carries the obligation that the struct's RWMutex is write-held at that point
// (sequential typestate: ghost wheld). Constructors and options are exempted by the property config.
func (g *Gen) guardedStore(v *ssa.Store) {
	fa, ok := v.Addr.(*ssa.FieldAddr)
	if !ok || len(g.guardedBy) == 0 {
		return
	}
	st := deref(fa.X.Type())
	sts, ok := st.Underlying().(*types.Struct)
	if !ok {
		return
	}
	for _, gb := range g.guardedBy {
		if typeKey(st) != gb.Struct {
			continue
		}
		fld := sts.Field(fa.Field)
		if fld.Name() == gb.Lock {
			continue
		}
		skip := false
		for _, x := range gb.ExemptFields {
			if x == fld.Name() {
				skip = true
			}
		}
		if skip {
			continue
		}
		var lock *types.Var
		for i := 0; i < sts.NumFields(); i++ {
			if sts.Field(i).Name() == gb.Lock {
				lock = sts.Field(i)
			}
		}
		if lock == nil {
			continue
		}
		h, _, _ := g.ghostHeap("wheld")
		if h == "" {
			continue
		}
		m := g.subObj(st, lock, g.v(fa.X))
		g.oblige("guarded", fld.Name()+":"+g.srcOf(v.Pos(), "assign"), gb.Lock+"-write-held", []string{g.prop}, false, "(select "+g.heap(h)+" "+m+")", v.Pos())
	}
}

func (g *Gen) store(v *ssa.Store) {
	g.guardedStore(v)
	lv := g.addr(v.Addr)
	g.nilCheck(lv.ref, v.Addr, v.Pos(), "star", "sel")
	if lv.kind == "ref" {
		// store of a whole struct value: copy the scalar fields from the value's projections
		val := g.v(v.Val)
		if st, ok := lv.typ.Underlying().(*types.Struct); ok {
			for i := 0; i < st.NumFields(); i++ {
				f := st.Field(i)
				if isStructT(f.Type()) || isArrayT(f.Type()) {
					continue
				}
				h := g.fieldHeap(lv.typ, f)
				g.assignHeap(h, "(store "+g.heap(h)+" "+lv.ref+" "+g.valField(lv.typ, f, val)+")")
			}
		} else if at, ok := lv.typ.Underlying().(*types.Array); ok {
			h := g.arrHeap(at.Elem())
			nv := g.fresh("arrval", SInt)
			_ = nv
			g.assignHeap(h, "(store "+g.heap(h)+" "+lv.ref+" "+g.freshSig("arrcontent", "() (Array Int "+string(sortOf(at.Elem()))+")")+")")
		}
		return
	}
	g.storeLV(lv, g.v(v.Val))
	g.afterStore(v, lv)
}

func (g *Gen) binop(v *ssa.BinOp) {
	r := g.v(v)
	x, y := g.v(v.X), g.v(v.Y)
	xs := sortOf(v.X.Type())
	switch v.Op {
	case token.EQL, token.NEQ:
		var e string
		if xs == SSlc {
			// slices compare only against nil
			other := x
			if c, ok := v.X.(*ssa.Const); ok && c.Value == nil {
				other = y
			}
			e = eq("(sl_arr "+other+")", "0")
		} else if isStructT(v.X.Type()) || isArrayT(v.X.Type()) {
			e = g.fresh("structeq", SBool)
		} else {
			e = eq(x, y)
		}
		if v.Op == token.NEQ {
			e = not(e)
		}
		g.guard(eq(r, e))
		return
	}
	switch xs {
	case SStr:
		switch v.Op {
		case token.ADD:
			g.guard(eq(r, "(sconcat "+x+" "+y+")"))
		case token.LSS:
			g.guard(eq(r, "(str.lt "+x+" "+y+")"))
		case token.GTR:
			g.guard(eq(r, "(str.lt "+y+" "+x+")"))
		case token.LEQ:
			g.guard(eq(r, not("(str.lt "+y+" "+x+")")))
		case token.GEQ:
			g.guard(eq(r, not("(str.lt "+x+" "+y+")")))
		}
		return
	case SBool:
		switch v.Op {
		case token.AND:
			g.guard(eq(r, and(x, y)))
		case token.OR:
			g.guard(eq(r, or(x, y)))
		case token.XOR:
			g.guard(eq(r, "(xor "+x+" "+y+")"))
		}
		return
	}
	if !isInteger(v.X.Type()) {
		// floats / complex: opaque
		return
	}
	_, yConst := v.Y.(*ssa.Const)
	_, xConst := v.X.(*ssa.Const)
	switch v.Op {
	case token.ADD:
		g.guard(eq(r, "(+ "+x+" "+y+")"))
	case token.SUB:
		g.guard(eq(r, "(- "+x+" "+y+")"))
	case token.MUL:
		if xConst || yConst {
			g.guard(eq(r, "(* "+x+" "+y+")"))
		} else {
			g.guard(eq(r, "(opq.mul "+x+" "+y+")"))
		}
	case token.QUO, token.REM:
		g.oblige("div0", g.srcOf(v.Pos(), "binary"), "", nil, true, not(eq(y, "0")), v.Pos())
		if yConst {
			// Go truncates toward zero
			q := "(ite (>= " + x + " 0) (div " + x + " " + y + ") (- (div (- " + x + ") " + y + ")))"
			if v.Op == token.QUO {
				g.guard(eq(r, q))
			} else {
				g.guard(eq(r, "(- "+x+" (* "+y+" "+q+"))"))
			}
		} else if v.Op == token.QUO {
			g.guard(eq(r, "(opq.div "+x+" "+y+")"))
		} else {
			g.guard(eq(r, "(opq.rem "+x+" "+y+")"))
			g.guard(implies(and("(>= "+x+" 0)", "(> "+y+" 0)"), and("(<= 0 "+r+")", "(< "+r+" "+y+")")))
		}
	case token.LSS:
		g.guard(eq(r, "(< "+x+" "+y+")"))
	case token.LEQ:
		g.guard(eq(r, "(<= "+x+" "+y+")"))
	case token.GTR:
		g.guard(eq(r, "(> "+x+" "+y+")"))
	case token.GEQ:
		g.guard(eq(r, "(>= "+x+" "+y+")"))
	case token.AND:
		g.guard(eq(r, "(bit.and "+x+" "+y+")"))
		if yConst {
			g.guard(implies("(>= "+y+" 0)", and("(<= 0 "+r+")", "(<= "+r+" "+y+")")))
		}
	case token.OR:
		g.guard(eq(r, "(bit.or "+x+" "+y+")"))
	case token.XOR:
		g.guard(eq(r, "(bit.xor "+x+" "+y+")"))
	case token.AND_NOT:
		g.guard(eq(r, "(bit.andnot "+x+" "+y+")"))
	case token.SHL:
		if c, ok := v.Y.(*ssa.Const); ok && c.Value != nil {
			if k, exact := constant.Int64Val(c.Value); exact && k >= 0 && k < 62 {
				g.guard(eq(r, fmt.Sprintf("(* %s %d)", x, int64(1)<<uint(k))))
				break
			}
		}
		g.guard(eq(r, "(bit.shl "+x+" "+y+")"))
	case token.SHR:
		if c, ok := v.Y.(*ssa.Const); ok && c.Value != nil {
			if k, exact := constant.Int64Val(c.Value); exact && k >= 0 && k < 62 {
				g.guard(implies("(>= "+x+" 0)", eq(r, fmt.Sprintf("(div %s %d)", x, int64(1)<<uint(k)))))
				break
			}
		}
		g.guard(eq(r, "(bit.shr "+x+" "+y+")"))
		g.guard(implies("(>= "+x+" 0)", and("(<= 0 "+r+")", "(<= "+r+" "+x+")")))
	}
	if isUnsigned(v.Type()) || v.Type().Underlying().(*types.Basic).Kind() == types.Uint8 {
		g.guard(g.typeFacts(r, v.Type()))
	}
}

func (g *Gen) sliceInstr(v *ssa.Slice) {
	r := g.v(v)
	x := g.v(v.X)
	txt := g.srcOf(v.Pos(), "slice")
	if txt == "" {
		txt = "(implicit)" + v.X.Name() + "[:]"
	}
	lo := "0"
	if v.Low != nil {
		lo = g.v(v.Low)
	}
	switch xt := v.X.Type().Underlying().(type) {
	case *types.Basic: // string
		hi := "(slen " + x + ")"
		if v.High != nil {
			hi = g.v(v.High)
		}
		g.oblige("slice", txt, "", nil, true, and("(<= 0 "+lo+")", "(<= "+lo+" "+hi+")", "(<= "+hi+" (slen "+x+"))"), v.Pos())
		g.guard(eq(r, "(ssub "+x+" "+lo+" "+hi+")"))
	case *types.Slice:
		hi := "(sl_len " + x + ")"
		if v.High != nil {
			hi = g.v(v.High)
		}
		mx := "(sl_cap " + x + ")"
		if v.Max != nil {
			mx = g.v(v.Max)
			g.oblige("slice", txt, "", nil, true, and("(<= 0 "+lo+")", "(<= "+lo+" "+hi+")", "(<= "+hi+" "+mx+")", "(<= "+mx+" (sl_cap "+x+"))"), v.Pos())
		} else {
			g.oblige("slice", txt, "", nil, true, and("(<= 0 "+lo+")", "(<= "+lo+" "+hi+")", "(<= "+hi+" (sl_cap "+x+"))"), v.Pos())
		}
		g.guard(and(eq("(sl_arr "+r+")", "(sl_arr "+x+")"), eq("(sl_off "+r+")", "(+ (sl_off "+x+") "+lo+")"),
			eq("(sl_len "+r+")", "(- "+hi+" "+lo+")"), eq("(sl_cap "+r+")", "(- "+mx+" "+lo+")")))
	case *types.Pointer: // pointer to array
		n := xt.Elem().Underlying().(*types.Array).Len()
		ref := g.objRef(v.X)
		g.nilCheck(ref, v.X, v.Pos(), "slice")
		hi := fmt.Sprint(n)
		if v.High != nil {
			hi = g.v(v.High)
		}
		mx := fmt.Sprint(n)
		if v.Max != nil {
			mx = g.v(v.Max)
		}
		if !(v.Low == nil && v.High == nil && v.Max == nil) {
			g.oblige("slice", txt, "", nil, true, and("(<= 0 "+lo+")", "(<= "+lo+" "+hi+")", "(<= "+hi+" "+mx+")", fmt.Sprintf("(<= %s %d)", mx, n)), v.Pos())
		}
		g.guard(and(eq("(sl_arr "+r+")", ref), eq("(sl_off "+r+")", lo),
			eq("(sl_len "+r+")", "(- "+hi+" "+lo+")"), eq("(sl_cap "+r+")", "(- "+mx+" "+lo+")")))
	}
}

func (g *Gen) makeInterface(v *ssa.MakeInterface) {
	r := g.v(v)
	xt := v.X.Type()
	x := g.v(v.X)
	if _, isPtr := xt.Underlying().(*types.Pointer); isPtr {
		g.guard(eq(r, x))
		return
	}
	if _, isIface := xt.Underlying().(*types.Interface); isIface {
		g.guard(eq(r, x))
		return
	}
	switch xt.Underlying().(type) {
	case *types.Map, *types.Signature, *types.Chan:
		g.guard(eq(r, x))
		return
	}
	al := g.heap("alloc")
	g.guard(and(not(eq(r, "0")), "(<= (atime "+r+") "+al+")", eq("(dyntype "+r+")", g.typeID(xt))))
	s := sortOf(xt)
	g.guard(eq("(unbox."+string(s)+" "+r+")", x))
	if s == SStr {
		if !hasStringMethod(xt) || inRepo(namedPkg(xt)) {
			// %s / %v print the string itself (in-repo String() methods on string types are identities; audited)
			g.guard(eq("(fmt.any "+r+")", x))
		}
	}
	if s == SInt && isInteger(xt) && !hasStringMethod(xt) {
		g.guard(eq("(fmt.any "+r+")", "(itoa "+x+")"))
	}
	if sl, ok := xt.Underlying().(*types.Slice); ok && s == SSlc && !hasStringMethod(xt) {
		if b, ok := sl.Elem().Underlying().(*types.Basic); ok && b.Kind() == types.Uint8 {
			// %s / %v of a byte slice print its bytes (content at the time of boxing: the value is boxed
			// right in front of the formatting call)
			g.guard(eq("(fmt.any "+r+")", "(str.of (select "+g.heap(g.arrHeap(sl.Elem()))+" (sl_arr "+x+")) (sl_off "+x+") (sl_len "+x+"))"))
		}
	}
}

func namedPkg(t types.Type) *types.Package {
	if n, ok := types.Unalias(t).(*types.Named); ok {
		return n.Obj().Pkg()
	}
	return nil
}

func hasStringMethod(t types.Type) bool {
	ms := types.NewMethodSet(t)
	for i := 0; i < ms.Len(); i++ {
		n := ms.At(i).Obj().Name()
		if n == "String" || n == "Error" || n == "Format" {
			return true
		}
	}
	return false
}

func (g *Gen) convert(v *ssa.Convert) {
	r := g.v(v)
	x := g.v(v.X)
	from, to := v.X.Type(), v.Type()
	fs, ts := sortOf(from), sortOf(to)
	switch {
	case fs == SInt && ts == SInt:
		if isInteger(from) && isInteger(to) {
			tb := to.Underlying().(*types.Basic)
			fb := from.Underlying().(*types.Basic)
			if tb.Kind() == types.Uint8 && fb.Kind() != types.Uint8 {
				g.guard(eq(r, "(mod "+x+" 256)"))
			} else {
				g.guard(eq(r, x)) // widening / same width: machine arithmetic treated as mathematical
			}
		} else if _, ok := to.Underlying().(*types.Pointer); ok {
			g.guard(eq(r, x))
		} else {
			g.guard(g.typeFacts(r, to))
		}
	case fs == SStr && ts == SStr:
		g.guard(eq(r, x))
	case fs == SStr && ts == SSlc:
		// []byte(s): fresh array with the bytes of s;  []rune(s): opaque content
		arr := g.fresh("arr", SInt)
		al := g.heap("alloc")
		g.guard(and(not(eq(arr, "0")), "(> (atime "+arr+") "+al+")"))
		g.assignHeap("alloc", "(atime "+arr+")")
		et := to.Underlying().(*types.Slice).Elem()
		g.guard(and(eq("(sl_arr "+r+")", arr), eq("(sl_off "+r+")", "0"), "(<= (sl_len "+r+") (sl_cap "+r+"))"))
		if et.Underlying().(*types.Basic).Kind() == types.Uint8 {
			g.guard(eq("(sl_len "+r+")", "(slen "+x+")"))
			g.guard(eq("(str.of (select "+g.heap(g.arrHeap(et))+" "+arr+") 0 (slen "+x+"))", x))
			ah := g.heap(g.arrHeap(et))
			g.guard("(forall ((i Int)) (! (=> (and (<= 0 i) (< i (slen " + x + "))) (= (select (select " + ah + " " + arr + ") i) (sat " + x + " i))) :pattern ((select (select " + ah + " " + arr + ") i))))")
		} else {
			g.guard(and("(<= 0 (sl_len "+r+"))", "(<= (sl_len "+r+") (slen "+x+"))"))
		}
	case fs == SSlc && ts == SStr:
		et := from.Underlying().(*types.Slice).Elem()
		if et.Underlying().(*types.Basic).Kind() == types.Uint8 {
			g.guard(eq("(slen "+r+")", "(sl_len "+x+")"))
			g.guard(eq(r, "(str.of (select "+g.heap(g.arrHeap(et))+" (sl_arr "+x+")) (sl_off "+x+") (sl_len "+x+"))"))
			ah := g.heap(g.arrHeap(et))
			g.guard("(forall ((i Int)) (! (=> (and (<= 0 i) (< i (sl_len " + x + "))) (= (sat " + r + " i) (select (select " + ah + " (sl_arr " + x + ")) (+ (sl_off " + x + ") i)))) :pattern ((sat " + r + " i))))")
		}
	case fs == SInt && ts == SStr:
		// string(rune): opaque, 1..4 bytes
		g.guard(and("(<= 1 (slen "+r+"))", "(<= (slen "+r+") 4)"))
	case fs == SSlc && ts == SSlc:
		g.guard(eq(r, x))
	}
}

func (g *Gen) typeAssert(v *ssa.TypeAssert) {
	x := g.v(v.X)
	var okT, res string
	at := v.AssertedType
	if _, isIface := at.Underlying().(*types.Interface); isIface {
		fn := sym("implements." + typeKey(at))
		g.declare(fn, "(Int) Bool")
		okT = and(not(eq(x, "0")), "("+fn+" (dyntype "+x+"))")
		res = x
	} else {
		okT = and(not(eq(x, "0")), eq("(dyntype "+x+")", g.typeID(at)))
		switch at.Underlying().(type) {
		case *types.Pointer, *types.Map, *types.Signature, *types.Chan:
			res = x
		default:
			res = "(unbox." + string(sortOf(at)) + " " + x + ")"
		}
	}
	if v.CommaOk {
		g.guard(eq(g.tupleComp(v, 1), okT))
		r0 := g.tupleComp(v, 0)
		g.guard(implies(okT, eq(r0, res)))
		g.guard(implies(not(okT), eq(r0, zeroOf(sortOf(at)))))
		g.guard(g.typeFacts(r0, at))
		return
	}
	g.oblige("assert-type", g.srcOf(v.Pos(), "assert"), "", nil, true, okT, v.Pos())
	r := g.v(v)
	g.guard(eq(r, res))
	g.guard(g.typeFacts(r, at))
}

func (g *Gen) lookup(v *ssa.Lookup) {
	x := g.v(v.X)
	k := g.v(v.Index)
	if isStringT(v.X.Type()) {
		g.oblige("bounds", g.srcOf(v.Pos(), "index"), "", nil, true, and("(<= 0 "+k+")", "(< "+k+" (slen "+x+"))"), v.Pos())
		g.guard(eq(g.v(v), "(sat "+x+" "+k+")"))
		return
	}
	mt := v.X.Type().Underlying().(*types.Map)
	g.forbidCheck(v.X.Type(), k, v.Pos())
	has, val := g.mapHeaps(mt)
	present := and(not(eq(x, "0")), "(select (select "+g.heap(has)+" "+x+") "+k+")")
	value := "(select (select " + g.heap(val) + " " + x + ") " + k + ")"
	zero := zeroOf(sortOf(mt.Elem()))
	if v.CommaOk {
		r0, r1 := g.tupleComp(v, 0), g.tupleComp(v, 1)
		g.guard(eq(r1, present))
		g.guard(eq(r0, "(ite "+present+" "+value+" "+zero+")"))
		g.guard(implies(present, g.typeFacts(r0, mt.Elem())))
		return
	}
	r := g.v(v)
	g.guard(eq(r, "(ite "+present+" "+value+" "+zero+")"))
	g.guard(implies(present, g.typeFacts(r, mt.Elem())))
}

// forbidCheck generates the "reads" obligation of a forbidden-key rule.
func (g *Gen) forbidCheck(mapT types.Type, key string, pos token.Pos) {
	for _, f := range g.forbid {
		if typeKey(mapT) != f.MapType {
			continue
		}
		txt := g.srcOf(pos, "index")
		g.oblige("reads", txt, "not-"+f.Key, []string{g.prop}, false, not(eq(key, g.strLit(f.Key))), pos)
	}
}

func (g *Gen) mapUpdate(v *ssa.MapUpdate) {
	m := g.v(v.Map)
	k := g.v(v.Key)
	g.forbidCheck(v.Map.Type(), k, v.Pos())
	mt := v.Map.Type().Underlying().(*types.Map)
	has, val := g.mapHeaps(mt)
	if _, ok := v.Map.(*ssa.MakeMap); !ok {
		g.oblige("nilmap-store", g.srcOf(v.Pos(), "index"), "", nil, true, not(eq(m, "0")), v.Pos())
	}
	hh, vh := g.heap(has), g.heap(val)
	g.assignHeap(has, "(store "+hh+" "+m+" (store (select "+hh+" "+m+") "+k+" true))")
	g.assignHeap(val, "(store "+vh+" "+m+" (store (select "+vh+" "+m+") "+k+" "+g.v(v.Value)+"))")
	g.afterMapUpdate(v)
}

func (g *Gen) next(v *ssa.Next) {
	rng, ok := v.Iter.(*ssa.Range)
	if !ok {
		return
	}
	okT := g.tupleComp(v, 0)
	x := g.v(rng.X)
	if v.IsString {
		k := g.tupleComp(v, 1)
		g.guard(implies(okT, and("(<= 0 "+k+")", "(< "+k+" (slen "+x+"))")))
		return
	}
	mt := rng.X.Type().Underlying().(*types.Map)
	for _, f := range g.forbid {
		if typeKey(rng.X.Type()) == f.MapType {
			g.oblige("reads", "range", "not-"+f.Key, []string{g.prop}, false, "false", v.Pos())
		}
	}
	g.mapOrder(v, x)
	has, val := g.mapHeaps(mt)
	tt := v.Type().(*types.Tuple)
	k := g.tupleComp(v, 1)
	facts := []string{not(eq(x, "0"))}
	// key / value components may be of invalid type when unused
	if tt.At(1).Type() != nil && tt.At(1).Type() != types.Typ[types.Invalid] {
		facts = append(facts, "(select (select "+g.heap(has)+" "+x+") "+k+")")
		if tt.At(2).Type() != nil && tt.At(2).Type() != types.Typ[types.Invalid] {
			val2 := g.tupleComp(v, 2)
			facts = append(facts, eq(val2, "(select (select "+g.heap(val)+" "+x+") "+k+")"), g.typeFacts(val2, mt.Elem()))
		}
	}
	g.guard(implies(okT, and(facts...)))
}

// mapOrder: a range over a Go map visits the keys in an unspecified order. When the loop body
// (transitively, by the inferred frames of what it calls) modifies a heap the property declared
// order-sensitive (the output sink), the iteration order is observable, so the loop carries the
// obligation len(map) <= 1 (C11: rendering is repeatable).
func (g *Gen) mapOrder(v *ssa.Next, x string) {
	if len(g.orderHeaps) == 0 || g.pass != 2 || g.pass1 == nil {
		return
	}
	h := v.Block().Index
	if !g.heads[h] {
		return
	}
	var hit []string
	for _, n := range g.loopMods(h, g.pass1) {
		for _, o := range g.orderHeaps {
			if n == o {
				hit = append(hit, n)
			}
		}
	}
	if len(hit) == 0 {
		return
	}
	rng := v.Iter.(*ssa.Range)
	txt := g.P.srcText(rng.Pos(), func(n ast.Node) bool { _, ok := n.(*ast.RangeStmt); return ok })
	if i := strings.Index(txt, "{"); i > 0 {
		txt = txt[:i]
	}
	g.oblige("maporder", txt, "writes-"+strings.Join(hit, "+"), []string{g.prop}, false, "(<= (maplen "+x+") 1)", v.Pos())
}

func isInvalid(t types.Type) bool {
	b, ok := t.(*types.Basic)
	return ok && b.Kind() == types.Invalid
}

// varargValues recovers the elements of a variadic argument slice built in the
// calling function (new [n]T; stores; slice).
func varargValues(s ssa.Value) ([]ssa.Value, bool) {
	if c, ok := s.(*ssa.Const); ok && c.Value == nil {
		return nil, true
	}
	sl, ok := s.(*ssa.Slice)
	if !ok {
		return nil, false
	}
	al, ok := sl.X.(*ssa.Alloc)
	if !ok {
		return nil, false
	}
	at, ok := deref(al.Type()).Underlying().(*types.Array)
	if !ok {
		return nil, false
	}
	out := make([]ssa.Value, at.Len())
	for _, r := range *al.Referrers() {
		ia, ok := r.(*ssa.IndexAddr)
		if !ok {
			continue
		}
		c, ok := ia.Index.(*ssa.Const)
		if !ok {
			return nil, false
		}
		i, _ := constant.Int64Val(c.Value)
		for _, r2 := range *ia.Referrers() {
			if st, ok := r2.(*ssa.Store); ok && st.Addr == ia {
				out[i] = st.Val
			}
		}
	}
	for _, o := range out {
		if o == nil {
			return nil, false
		}
	}
	return out, true
}

func lastSeg(s string) string {
	if i := strings.LastIndex(s, "."); i >= 0 {
		return s[i+1:]
	}
	return s
}
