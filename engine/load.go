package main

import (
	"bytes"
	"fmt"
	"go/ast"
	"go/constant"
	"go/printer"
	"go/token"
	"go/types"
	"os"
	"path/filepath"
	"sort"
	"strings"

	"golang.org/x/tools/go/ast/astutil"
	"golang.org/x/tools/go/packages"
	"golang.org/x/tools/go/ssa"
	"golang.org/x/tools/go/ssa/ssautil"
)

const repoModule = "github.com/wneessen/go-mail"

type Program struct {
	Prog    *ssa.Program
	Fset    *token.FileSet
	Pkgs    []*packages.Package
	Files   map[*token.File]*ast.File
	ByKey   map[string]*ssa.Function // in-repo functions by short key
	KeyOf   map[*ssa.Function]string
	AllPkgs map[string]*types.Package // by short name (for spec type lookup)
	RepoFns []*ssa.Function
	// NonNilGlobals: package-level variables initialised once (in init) with a
	// value known to be non-nil (errors.New / fmt.Errorf / &T{} / make) and never stored to again.
	NonNilGlobals map[*ssa.Global]bool
	// ConstBytesGlobals: package-level []byte variables initialised once with []byte("literal") and
	// never stored to again (assumption, listed: nobody writes through the slice either).
	ConstBytesGlobals map[*ssa.Global]string
}

// pkgShort gives the short package name used in contract keys.
func pkgShort(p *types.Package) string {
	if p == nil {
		return ""
	}
	switch p.Path() {
	case "net/mail":
		return "netmail"
	case "math/rand":
		return "mrand"
	case "github.com/wneessen/go-mail/log":
		return "maillog"
	}
	return p.Name()
}

func inRepo(p *types.Package) bool {
	return p != nil && (p.Path() == repoModule || strings.HasPrefix(p.Path(), repoModule+"/"))
}

func typeShort(t types.Type) string {
	switch t := t.(type) {
	case *types.Pointer:
		return typeShort(t.Elem())
	case *types.Named:
		if t.Obj().Pkg() == nil {
			return t.Obj().Name() // universe: error
		}
		return pkgShort(t.Obj().Pkg()) + "." + t.Obj().Name()
	case *types.Alias:
		return typeShort(types.Unalias(t))
	}
	return t.String()
}

// funcKey computes the contract key for an ssa function, e.g. smtp.Client.cmd,
// mail.sanitizeFilename, mail.Client.Auth$1.
func funcKey(fn *ssa.Function) string {
	if fn.Parent() != nil {
		// anonymous function: parent key + $N (go/ssa names them Parent$N)
		name := fn.Name()
		if i := strings.LastIndex(name, "$"); i >= 0 {
			return funcKey(fn.Parent()) + name[i:]
		}
		return funcKey(fn.Parent()) + "$" + name
	}
	if recv := fn.Signature.Recv(); recv != nil {
		return typeShort(recv.Type()) + "." + fn.Name()
	}
	if fn.Pkg != nil {
		return pkgShort(fn.Pkg.Pkg) + "." + fn.Name()
	}
	if fn.Object() != nil && fn.Object().Pkg() != nil {
		return pkgShort(fn.Object().Pkg()) + "." + fn.Name()
	}
	return fn.String()
}

// methodKey for an interface method invoke / abstract method.
func methodKey(recv types.Type, name string) string {
	return typeShort(recv) + "." + name
}

func loadProgram(dir string) (*Program, error) {
	cfg := &packages.Config{
		Mode:       packages.LoadAllSyntax,
		Dir:        dir,
		BuildFlags: []string{"-tags=verif"},
		Env:        append(os.Environ(), "GOFLAGS=-mod=mod", "GOPROXY=off", "GOSUMDB=off", "GOTOOLCHAIN=local"),
	}
	pkgs, err := packages.Load(cfg, "./...")
	if err != nil {
		return nil, err
	}
	nerr := 0
	packages.Visit(pkgs, nil, func(p *packages.Package) {
		for _, e := range p.Errors {
			if inRepo(p.Types) {
				fmt.Fprintf(os.Stderr, "load error: %v\n", e)
				nerr++
			}
		}
	})
	if nerr > 0 {
		return nil, fmt.Errorf("%d load errors in repo packages (tree does not compile)", nerr)
	}
	prog, _ := ssautil.AllPackages(pkgs, ssa.GlobalDebug|ssa.InstantiateGenerics)
	prog.Build()
	P := &Program{Prog: prog, Fset: prog.Fset, Pkgs: pkgs, Files: map[*token.File]*ast.File{},
		ByKey: map[string]*ssa.Function{}, KeyOf: map[*ssa.Function]string{}, AllPkgs: map[string]*types.Package{}}
	packages.Visit(pkgs, nil, func(p *packages.Package) {
		if p.Types != nil {
			P.AllPkgs[pkgShort(p.Types)] = p.Types
		}
		if inRepo(p.Types) {
			for _, f := range p.Syntax {
				P.Files[prog.Fset.File(f.Pos())] = f
			}
		}
	})
	for fn := range ssautil.AllFunctions(prog) {
		var pk *types.Package
		if fn.Pkg != nil {
			pk = fn.Pkg.Pkg
		} else if fn.Parent() != nil && fn.Parent().Pkg != nil {
			pk = fn.Parent().Pkg.Pkg
		} else if fn.Object() != nil {
			pk = fn.Object().Pkg()
		}
		if !inRepo(pk) || len(fn.Blocks) == 0 || fn.Synthetic != "" {
			continue
		}
		if strings.HasSuffix(prog.Fset.Position(fn.Pos()).Filename, "_test.go") {
			continue
		}
		k := funcKey(fn)
		if old, dup := P.ByKey[k]; dup && old != fn {
			// generic instantiations etc.: keep the first, deterministic by String()
			if old.String() < fn.String() {
				continue
			}
		}
		P.ByKey[k] = fn
		P.KeyOf[fn] = k
	}
	for _, fn := range P.ByKey {
		P.RepoFns = append(P.RepoFns, fn)
	}
	sort.Slice(P.RepoFns, func(i, j int) bool { return P.KeyOf[P.RepoFns[i]] < P.KeyOf[P.RepoFns[j]] })
	P.NonNilGlobals = map[*ssa.Global]bool{}
	P.ConstBytesGlobals = map[*ssa.Global]string{}
	stores := map[*ssa.Global]int{}
	for fn := range ssautil.AllFunctions(prog) {
		for _, b := range fn.Blocks {
			for _, in := range b.Instrs {
				st, ok := in.(*ssa.Store)
				if !ok {
					continue
				}
				gl, ok := st.Addr.(*ssa.Global)
				if !ok {
					continue
				}
				stores[gl]++
				if fn.Name() != "init" {
					stores[gl] += 100
					continue
				}
				switch v := st.Val.(type) {
				case *ssa.Convert:
					if c, ok := v.X.(*ssa.Const); ok && c.Value != nil && c.Value.Kind() == constant.String {
						if sl, ok := v.Type().Underlying().(*types.Slice); ok {
							if b, ok := sl.Elem().Underlying().(*types.Basic); ok && b.Kind() == types.Uint8 {
								P.ConstBytesGlobals[gl] = constant.StringVal(c.Value)
							}
						}
					}
				case *ssa.Call:
					if cal := v.Call.StaticCallee(); cal != nil {
						switch cal.String() {
						case "errors.New", "fmt.Errorf":
							P.NonNilGlobals[gl] = true
						}
						// constructors (NewX) of the package that owns the variable (assumption, listed)
						if _, isPtr := v.Type().Underlying().(*types.Pointer); isPtr && strings.HasPrefix(cal.Name(), "New") {
							P.NonNilGlobals[gl] = true
						}
					}
				case *ssa.Alloc, *ssa.MakeMap, *ssa.MakeInterface:
					if mi, ok := v.(*ssa.MakeInterface); ok {
						if _, isAlloc := mi.X.(*ssa.Alloc); !isAlloc {
							break
						}
					}
					P.NonNilGlobals[gl] = true
				}
			}
		}
	}
	for gl := range P.NonNilGlobals {
		if stores[gl] != 1 {
			delete(P.NonNilGlobals, gl)
		}
	}
	for gl := range P.ConstBytesGlobals {
		if stores[gl] != 1 {
			delete(P.ConstBytesGlobals, gl)
		}
	}
	return P, nil
}

// srcText returns the normalised source text of the innermost AST node at pos
// accepted by want.
func (P *Program) srcText(pos token.Pos, want func(ast.Node) bool) string {
	if !pos.IsValid() {
		return ""
	}
	tf := P.Fset.File(pos)
	f := P.Files[tf]
	if f == nil {
		return ""
	}
	path, _ := astutil.PathEnclosingInterval(f, pos, pos)
	for _, n := range path {
		if want(n) {
			var b bytes.Buffer
			printer.Fprint(&b, P.Fset, n)
			return strings.Join(strings.Fields(b.String()), "")
		}
	}
	return ""
}

func (P *Program) posString(pos token.Pos) string {
	if !pos.IsValid() {
		return "?"
	}
	p := P.Fset.Position(pos)
	return fmt.Sprintf("%s:%d", filepath.Base(p.Filename), p.Line)
}

// lookupType resolves "pkg.Name" (short package names) to a Go type.
func (P *Program) lookupType(name string) types.Type {
	if strings.HasPrefix(name, "[]") {
		if et := P.lookupType(name[2:]); et != nil {
			return types.NewSlice(et)
		}
		return nil
	}
	ptr := false
	if strings.HasPrefix(name, "*") {
		ptr = true
		name = name[1:]
	}
	i := strings.Index(name, ".")
	if i < 0 {
		if obj := types.Universe.Lookup(name); obj != nil {
			if tn, ok := obj.(*types.TypeName); ok {
				t := tn.Type()
				if ptr {
					t = types.NewPointer(t)
				}
				return t
			}
		}
		return nil
	}
	pk := P.AllPkgs[name[:i]]
	if pk == nil {
		return nil
	}
	obj := pk.Scope().Lookup(name[i+1:])
	if obj == nil {
		return nil
	}
	t := obj.Type()
	if ptr {
		t = types.NewPointer(t)
	}
	return t
}
