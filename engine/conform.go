package main

// Function-value conformance.
//
// A named function type with an assumed contract (mail.DialContextFunc: "either fails without leaving a transport
// behind, or returns a fresh open one") is a promise about every value of that type. Values that come from outside the
// repository are covered by the assumption; a closure or function of the repository that is converted to the type has to
// keep the promise itself: it gets the type's requires (assumed on entry) and ensures (obligations at every return),
// tagged with the properties the spec file names in `conform TYPE PROPS...`. Parameters and results are bound by position.

import (
	"go/types"
	"sort"

	"golang.org/x/tools/go/ssa"
)

func (c *Ctx) attachConformance() []string {
	var notes []string
	if len(c.S.Conform) == 0 {
		return nil
	}
	seen := map[string]bool{}
	for _, fn := range c.allFunctions() {
		for _, b := range fn.Blocks {
			for _, in := range b.Instrs {
				ct, ok := in.(*ssa.ChangeType)
				if !ok {
					continue
				}
				named, ok := types.Unalias(ct.Type()).(*types.Named)
				if !ok {
					continue
				}
				if _, isSig := named.Underlying().(*types.Signature); !isSig {
					continue
				}
				tk := typeShort(named)
				props, ok := c.S.Conform[tk]
				if !ok {
					continue
				}
				tctr := c.S.Contracts[tk]
				if tctr == nil || !tctr.Assumed {
					continue
				}
				var impl *ssa.Function
				switch x := ct.X.(type) {
				case *ssa.MakeClosure:
					impl, _ = x.Fn.(*ssa.Function)
				case *ssa.Function:
					impl = x
				}
				if impl == nil || !inRepoFn(impl) || len(impl.Blocks) == 0 || impl.Synthetic != "" {
					continue
				}
				k := c.keyOf(impl)
				if seen[k+"|"+tk] {
					continue
				}
				seen[k+"|"+tk] = true
				ctr := c.S.Contracts[k]
				if ctr == nil {
					ctr = &Contract{Key: k, Pos: tctr.Pos}
					c.S.Contracts[k] = ctr
				}
				if len(ctr.Params) == 0 {
					ctr.Params = tctr.Params
					ctr.Positional = true
				}
				if len(ctr.Results) == 0 {
					ctr.Results = tctr.Results
				}
				nEns := 0
				for _, cl := range tctr.Clauses {
					if cl.Kind != "requires" && cl.Kind != "ensures" {
						continue
					}
					cp := *cl
					if cl.Kind == "ensures" {
						nEns++
						if only := c.S.ConformOnly[tk]; only != nil && !only[nEns] {
							continue
						}
						cp.Props = append([]string{}, props...)
						if cp.Tag == "" {
							cp.Tag = "conforms-to-" + tk
						}
					}
					ctr.Clauses = append(ctr.Clauses, &cp)
				}
				notes = append(notes, k+" is converted to "+tk+": verified against the type's contract")
			}
		}
	}
	sort.Strings(notes)
	return notes
}
