package main

import (
	"fmt"
	"go/ast"
	"go/constant"
	"go/types"
	"strings"

	"golang.org/x/tools/go/ssa"
)

// Env is the environment in which a spec expression is translated.
type Env struct {
	g         *Gen
	vars      map[string]TV
	lookup    func(name string, e *Env) (TV, bool)
	heapState map[string]string // nil: the generator's current state
	old       *Env
	pkg       *types.Package
}

func (e *Env) heap(name string) string {
	if e.heapState != nil {
		return e.g.heapIn(e.heapState, name)
	}
	return e.g.heap(name)
}

func (e *Env) with(name string, tv TV) *Env {
	n := *e
	n.vars = make(map[string]TV, len(e.vars)+1)
	for k, v := range e.vars {
		n.vars[k] = v
	}
	n.vars[name] = tv
	if e.old != nil && e.old != e {
		o := e.old.with(name, tv)
		n.old = o
	}
	return &n
}

func specErr(x *Expr, f string, a ...interface{}) error {
	return fmt.Errorf("%s: %s (in %s)", x.Pos, fmt.Sprintf(f, a...), x.String())
}

func (g *Gen) transBool(x *Expr, env *Env) string {
	tv := g.trans(x, env)
	if tv.S != SBool {
		panic(specErr(x, "expected a boolean expression, got %s", tv.S))
	}
	return tv.T
}

func specTypeOfName(P *Program, n string) (Sort, types.Type) {
	switch n {
	case "int":
		return SInt, types.Typ[types.Int]
	case "bool":
		return SBool, types.Typ[types.Bool]
	case "string":
		return SStr, types.Typ[types.String]
	case "ref":
		return SInt, nil
	case "slice":
		return SSlc, nil
	case "bytes":
		return SSlc, types.NewSlice(types.Typ[types.Uint8])
	}
	if t := P.lookupType(n); t != nil {
		return sortOf(t), t
	}
	panic(fmt.Errorf("unknown spec type %q", n))
}

func (g *Gen) trans(x *Expr, env *Env) TV {
	switch x.Op {
	case "int":
		return TV{intLit(x.Int), SInt, types.Typ[types.Int]}
	case "bool":
		return TV{x.Name, SBool, types.Typ[types.Bool]}
	case "str":
		return TV{g.strLit(x.Str), SStr, types.Typ[types.String]}
	case "nil":
		return TV{"0", SInt, nil}
	case "id":
		return g.transIdent(x, env)
	case "old":
		if env.old == nil {
			panic(specErr(x, "old() not available here"))
		}
		return g.trans(x.Args[0], env.old)
	case "sel":
		return g.transSel(x, env)
	case "idx":
		return g.transIndex(x, env)
	case "slice":
		b := g.trans(x.Args[0], env)
		if b.S != SStr {
			panic(specErr(x, "slice expressions are supported on strings only"))
		}
		lo, hi := "0", "(slen "+b.T+")"
		if x.Args[1] != nil {
			lo = g.trans(x.Args[1], env).T
		}
		if x.Args[2] != nil {
			hi = g.trans(x.Args[2], env).T
		}
		return TV{"(ssub " + b.T + " " + lo + " " + hi + ")", SStr, types.Typ[types.String]}
	case "un":
		a := g.trans(x.Args[0], env)
		if x.Name == "!" {
			if a.S != SBool {
				panic(specErr(x, "! needs a boolean"))
			}
			return TV{not(a.T), SBool, a.Type}
		}
		return TV{"(- " + a.T + ")", SInt, a.Type}
	case "bin":
		return g.transBin(x, env)
	case "in":
		k := g.trans(x.Args[0], env)
		m := g.trans(x.Args[1], env)
		mt, ok := typeUnder(m.Type).(*types.Map)
		if !ok {
			panic(specErr(x, "'in' needs a map"))
		}
		has, _ := g.mapHeaps(mt)
		return TV{and(not(eq(m.T, "0")), "(select (select "+env.heap(has)+" "+m.T+") "+k.T+")"), SBool, nil}
	case "ite":
		c := g.transBool(x.Args[0], env)
		a := g.trans(x.Args[1], env)
		b := g.trans(x.Args[2], env)
		if a.S != b.S {
			panic(specErr(x, "branches of ?: differ in sort"))
		}
		return TV{"(ite " + c + " " + a.T + " " + b.T + ")", a.S, a.Type}
	case "forall", "exists":
		e2 := env
		var binders []string
		for _, q := range x.Vars {
			s, t := specTypeOfName(g.P, q.Type)
			// unique binder names: macro expansion nests quantifiers that use the same variable name
			g.nbound++
			name := fmt.Sprintf("q.%s!%d", q.Name, g.nbound)
			e2 = e2.with(q.Name, TV{name, s, t})
			binders = append(binders, "("+name+" "+string(s)+")")
		}
		body := g.transBool(x.Args[0], e2)
		return TV{"(" + x.Op + " (" + strings.Join(binders, " ") + ") " + body + ")", SBool, nil}
	case "call":
		return g.transCall(x, env)
	}
	panic(specErr(x, "unsupported expression"))
}

func typeUnder(t types.Type) types.Type {
	if t == nil {
		return nil
	}
	return t.Underlying()
}

func (g *Gen) outerLookup(name string, env *Env) (TV, bool) {
	for p := g; p != nil; p = p.parent {
		if p.outer == nil {
			continue
		}
		if tv, ok := p.outer.vars[name]; ok {
			return tv, true
		}
		if p.outer.lookup != nil {
			if tv, ok := p.outer.lookup(name, env); ok {
				return tv, true
			}
		}
		if alt, ok := p.outerAlias[name]; ok {
			if tv, ok := p.outer.vars[alt]; ok {
				return tv, true
			}
			if p.outer.lookup != nil {
				if tv, ok := p.outer.lookup(alt, env); ok {
					return tv, true
				}
			}
		}
	}
	return TV{}, false
}

func (g *Gen) noteRename(old, cur string) {
	if g.renames == nil {
		g.renames = map[string]string{}
	}
	g.renames[old] = cur
}

func (g *Gen) transIdent(x *Expr, env *Env) TV {
	if tv, ok := env.vars[x.Name]; ok {
		return tv
	}
	if env.lookup != nil {
		if tv, ok := env.lookup(x.Name, env); ok {
			return tv
		}
	}
	if x.Name == "world" {
		// the object carrying global ghost state
		return TV{"1", SInt, nil}
	}
	// inside an inlined callee: the caller's variables at the call (inline.go)
	if tv, ok := g.outerLookup(x.Name, env); ok {
		return tv
	}
	// a variable of the function that was renamed since the contracts were written (locals.go)
	if alt, ok := g.aliasOf[x.Name]; ok {
		if tv, ok := env.vars[alt]; ok {
			g.noteRename(x.Name, alt)
			return tv
		}
		if env.lookup != nil {
			if tv, ok := env.lookup(alt, env); ok {
				g.noteRename(x.Name, alt)
				return tv
			}
		}
	}
	if v, ok := g.S.Consts[x.Name]; ok {
		return TV{intLit(v), SInt, types.Typ[types.Int]}
	}
	if env.pkg != nil {
		if obj := env.pkg.Scope().Lookup(x.Name); obj != nil {
			return g.pkgObject(x, obj, env)
		}
	}
	panic(specErr(x, "unresolved identifier %q", x.Name))
}

func (g *Gen) pkgObject(x *Expr, obj types.Object, env *Env) TV {
	switch o := obj.(type) {
	case *types.Const:
		t := o.Type()
		switch sortOf(t) {
		case SBool:
			if constant.BoolVal(o.Val()) {
				return TV{"true", SBool, t}
			}
			return TV{"false", SBool, t}
		case SStr:
			return TV{g.strLit(constant.StringVal(o.Val())), SStr, t}
		default:
			if i, ok := constant.Int64Val(constant.ToInt(o.Val())); ok {
				return TV{intLit(i), SInt, t}
			}
		}
	case *types.Var:
		addr := "glob." + sym(pkgShort(o.Pkg())+"."+o.Name())
		if !g.globals[addr] {
			g.globals[addr] = true
			g.declConst(addr, SInt)
		}
		if isStructT(o.Type()) {
			return TV{addr, SInt, types.NewPointer(o.Type())}
		}
		h := g.cellHeap(o.Type())
		return TV{"(select " + env.heap(h) + " " + addr + ")", sortOf(o.Type()), o.Type()}
	}
	panic(specErr(x, "cannot use package object %s here", obj.Name()))
}

func (g *Gen) transSel(x *Expr, env *Env) TV {
	// package-qualified name?
	if id := x.Args[0]; id.Op == "id" {
		if _, isVar := env.vars[id.Name]; !isVar {
			resolved := false
			if env.lookup != nil {
				_, resolved = env.lookup(id.Name, env)
			}
			if _, renamed := g.aliasOf[id.Name]; renamed {
				resolved = true // a variable of the function under an earlier name (locals.go)
			}
			if _, ok := g.outerLookup(id.Name, env); ok {
				resolved = true
			}
			if !resolved {
				if pk := g.P.AllPkgs[id.Name]; pk != nil {
					if obj := pk.Scope().Lookup(x.Name); obj != nil {
						return g.pkgObject(x, obj, env)
					}
					panic(specErr(x, "package %s has no object %s", id.Name, x.Name))
				}
			}
		}
	}
	b := g.trans(x.Args[0], env)
	// real field?
	if b.Type != nil {
		st := b.Type
		isPtr := false
		if p, ok := st.Underlying().(*types.Pointer); ok {
			st = p.Elem()
			isPtr = true
		}
		if s, ok := st.Underlying().(*types.Struct); ok {
			for i := 0; i < s.NumFields(); i++ {
				f := s.Field(i)
				if f.Name() != x.Name {
					continue
				}
				if !isPtr {
					return TV{g.valField(st, f, b.T), sortOf(f.Type()), f.Type()}
				}
				if isStructT(f.Type()) || isArrayT(f.Type()) {
					return TV{g.subObj(st, f, b.T), SInt, types.NewPointer(f.Type())}
				}
				return TV{"(select " + env.heap(g.fieldHeap(st, f)) + " " + b.T + ")", sortOf(f.Type()), f.Type()}
			}
			// promoted through embedded fields (one level)
			for i := 0; i < s.NumFields(); i++ {
				f := s.Field(i)
				if !f.Embedded() {
					continue
				}
				et := f.Type()
				if es, ok := deref(et).Underlying().(*types.Struct); ok {
					for j := 0; j < es.NumFields(); j++ {
						if es.Field(j).Name() == x.Name {
							inner := &Expr{Op: "sel", Name: f.Name(), Args: x.Args, Pos: x.Pos}
							return g.transSel(&Expr{Op: "sel", Name: x.Name, Args: []*Expr{inner}, Pos: x.Pos}, env)
						}
					}
				}
			}
		}
	}
	// ghost field
	if h, s, t := g.ghostHeap(x.Name); h != "" {
		if b.S != SInt {
			panic(specErr(x, "ghost field on a non-reference value"))
		}
		return TV{"(select " + env.heap(h) + " " + b.T + ")", s, t}
	}
	panic(specErr(x, "no field or ghost field %q on %v", x.Name, b.Type))
}

func (g *Gen) transIndex(x *Expr, env *Env) TV {
	b := g.trans(x.Args[0], env)
	i := g.trans(x.Args[1], env)
	switch b.S {
	case SStr:
		return TV{"(sat " + b.T + " " + i.T + ")", SInt, types.Typ[types.Uint8]}
	case SSlc:
		var et types.Type = types.Typ[types.Uint8]
		if sl, ok := typeUnder(b.Type).(*types.Slice); ok {
			et = sl.Elem()
		} else if b.Type != nil {
			panic(specErr(x, "indexing a slice of unknown element type"))
		}
		ah := g.arrHeap(et)
		return TV{"(select (select " + env.heap(ah) + " (sl_arr " + b.T + ")) (+ (sl_off " + b.T + ") " + i.T + "))", sortOf(et), et}
	}
	switch u := typeUnder(b.Type).(type) {
	case *types.Map:
		_, val := g.mapHeaps(u)
		return TV{"(select (select " + env.heap(val) + " " + b.T + ") " + i.T + ")", sortOf(u.Elem()), u.Elem()}
	case *types.Pointer:
		if at, ok := u.Elem().Underlying().(*types.Array); ok {
			ah := g.arrHeap(at.Elem())
			return TV{"(select (select " + env.heap(ah) + " " + b.T + ") " + i.T + ")", sortOf(at.Elem()), at.Elem()}
		}
	}
	panic(specErr(x, "cannot index %v", b.Type))
}

func (g *Gen) transBin(x *Expr, env *Env) TV {
	switch x.Name {
	case "&&", "||", "==>", "<==>":
		a := g.transBool(x.Args[0], env)
		b := g.transBool(x.Args[1], env)
		switch x.Name {
		case "&&":
			return TV{and(a, b), SBool, nil}
		case "||":
			return TV{or(a, b), SBool, nil}
		case "==>":
			return TV{implies(a, b), SBool, nil}
		default:
			return TV{eq(a, b), SBool, nil}
		}
	}
	a := g.trans(x.Args[0], env)
	b := g.trans(x.Args[1], env)
	switch x.Name {
	case "==", "!=":
		var t string
		if a.S == SSlc && x.Args[1].Op == "nil" {
			t = eq("(sl_arr "+a.T+")", "0")
		} else if b.S == SSlc && x.Args[0].Op == "nil" {
			t = eq("(sl_arr "+b.T+")", "0")
		} else {
			if a.S != b.S {
				panic(specErr(x, "comparison of %s with %s", a.S, b.S))
			}
			t = eq(a.T, b.T)
		}
		if x.Name == "!=" {
			t = not(t)
		}
		return TV{t, SBool, nil}
	case "<", "<=", ">", ">=":
		if a.S != SInt || b.S != SInt {
			panic(specErr(x, "ordering needs integers"))
		}
		return TV{"(" + x.Name + " " + a.T + " " + b.T + ")", SBool, nil}
	case "+":
		if a.S == SStr && b.S == SStr {
			return TV{"(sconcat " + a.T + " " + b.T + ")", SStr, a.Type}
		}
		fallthrough
	case "-", "*":
		if a.S != SInt || b.S != SInt {
			panic(specErr(x, "arithmetic needs integers"))
		}
		return TV{"(" + x.Name + " " + a.T + " " + b.T + ")", SInt, types.Typ[types.Int]}
	case "/":
		return TV{"(div " + a.T + " " + b.T + ")", SInt, types.Typ[types.Int]}
	case "%":
		return TV{"(mod " + a.T + " " + b.T + ")", SInt, types.Typ[types.Int]}
	}
	panic(specErr(x, "unknown operator %s", x.Name))
}

func (g *Gen) transCall(x *Expr, env *Env) TV {
	switch x.Name {
	case "len":
		a := g.trans(x.Args[0], env)
		switch a.S {
		case SStr:
			return TV{"(slen " + a.T + ")", SInt, types.Typ[types.Int]}
		case SSlc:
			return TV{"(sl_len " + a.T + ")", SInt, types.Typ[types.Int]}
		}
		if _, ok := typeUnder(a.Type).(*types.Map); ok {
			return TV{"(maplen " + a.T + ")", SInt, types.Typ[types.Int]}
		}
		panic(specErr(x, "len of %v", a.Type))
	case "cap":
		a := g.trans(x.Args[0], env)
		return TV{"(sl_cap " + a.T + ")", SInt, types.Typ[types.Int]}
	case "dyntype":
		a := g.trans(x.Args[0], env)
		return TV{"(dyntype " + a.T + ")", SInt, nil}
	case "istype":
		a := g.trans(x.Args[0], env)
		if x.Args[1].Op != "str" {
			panic(specErr(x, "istype(x, \"pkg.Type\")"))
		}
		t := g.P.lookupType(x.Args[1].Str)
		if t == nil {
			panic(specErr(x, "unknown type %s", x.Args[1].Str))
		}
		return TV{and(not(eq(a.T, "0")), eq("(dyntype "+a.T+")", g.typeID(t))), SBool, nil}
	case "allocated":
		a := g.trans(x.Args[0], env)
		return TV{and(not(eq(a.T, "0")), "(<= (atime "+a.T+") "+env.heap(g.allocHeap())+")"), SBool, nil}
	case "fresh":
		a := g.trans(x.Args[0], env)
		if env.old == nil {
			panic(specErr(x, "fresh() needs a pre-state"))
		}
		return TV{and(not(eq(a.T, "0")), "(> (atime "+a.T+") "+env.old.heap(g.allocHeap())+")", "(<= (atime "+a.T+") "+env.heap(g.allocHeap())+")"), SBool, nil}
	case "errtext":
		a := g.trans(x.Args[0], env)
		return TV{"(errtext " + a.T + ")", SStr, types.Typ[types.String]}
	case "str":
		// str(b): the string with the bytes of slice b
		a := g.trans(x.Args[0], env)
		if a.S != SSlc {
			panic(specErr(x, "str() needs a byte slice"))
		}
		ah := g.arrHeap(types.Typ[types.Uint8])
		return TV{"(str.of (select " + env.heap(ah) + " (sl_arr " + a.T + ")) (sl_off " + a.T + ") (sl_len " + a.T + "))", SStr, types.Typ[types.String]}
	case "unboxstr":
		a := g.trans(x.Args[0], env)
		return TV{"(unbox.Str " + a.T + ")", SStr, types.Typ[types.String]}
	case "unboxslc":
		a := g.trans(x.Args[0], env)
		return TV{"(unbox.Slc " + a.T + ")", SSlc, types.NewSlice(types.Typ[types.Uint8])}
	case "unboxint":
		a := g.trans(x.Args[0], env)
		return TV{"(unbox.Int " + a.T + ")", SInt, types.Typ[types.Int]}
	case "fmtany":
		a := g.trans(x.Args[0], env)
		return TV{"(fmt.any " + a.T + ")", SStr, types.Typ[types.String]}
	case "athead":
		// athead(N, E): the value E had at the head of loop N in the current iteration of that loop
		// (for invariants of a loop nested in loop N and for variants that refer to the enclosing loop)
		n := int(x.Args[0].Int)
		for h, ord := range g.headOrd {
			if ord != n {
				continue
			}
			if g.entry[h] == nil {
				panic(specErr(x, "athead(%d, ...): loop %d has not been entered at this point", n, n))
			}
			envHead := g.loopEnv(g.fn.Blocks[h], false)
			envHead.heapState = g.entry[h]
			return g.trans(x.Args[1], envHead)
		}
		panic(specErr(x, "no loop %d", n))
	case "loopidx":
		// loopidx(N): the range-index variable of loop N of the function under verification
		n := int(x.Args[0].Int)
		for h, ord := range g.headOrd {
			if ord != n {
				continue
			}
			for _, in := range g.fn.Blocks[h].Instrs {
				if phi, ok := in.(*ssa.Phi); ok && phi.Comment == "rangeindex" {
					return TV{g.v(phi), SInt, types.Typ[types.Int]}
				}
			}
		}
		panic(specErr(x, "loop %d has no range index", n))
	case "offof":
		a := g.trans(x.Args[0], env)
		if a.S != SSlc {
			panic(specErr(x, "offof needs a slice"))
		}
		return TV{"(sl_off " + a.T + ")", SInt, types.Typ[types.Int]}
	case "rawat":
		// rawat(s, j): element j of the backing array of s (absolute index, not relative to the slice offset)
		a := g.trans(x.Args[0], env)
		j := g.trans(x.Args[1], env)
		var et types.Type = types.Typ[types.Uint8]
		if sl, ok := typeUnder(a.Type).(*types.Slice); ok {
			et = sl.Elem()
		}
		return TV{"(select (select " + env.heap(g.arrHeap(et)) + " (sl_arr " + a.T + ")) " + j.T + ")", sortOf(et), et}
	case "arrof":
		a := g.trans(x.Args[0], env)
		if a.S != SSlc {
			panic(specErr(x, "arrof needs a slice"))
		}
		return TV{"(sl_arr " + a.T + ")", SInt, nil}
	case "bitxor":
		// bitxor(x, y): the ^ of the code (uninterpreted bit.xor of the prelude)
		a, b := g.trans(x.Args[0], env), g.trans(x.Args[1], env)
		return TV{"(bit.xor " + a.T + " " + b.T + ")", SInt, types.Typ[types.Int]}
	case "kept":
		// kept("A.string"): every object that was allocated on entry has the same content in this heap
		if env.old == nil {
			panic(specErr(x, "kept() needs a pre-state"))
		}
		n := x.Args[0].Str
		g.ensureHeapSortByName(n)
		if _, ok := g.heapSort[n]; !ok {
			return TV{"true", SBool, nil}
		}
		cur, old := env.heap(n), env.old.heap(n)
		al0 := env.old.heap(g.allocHeap())
		// kept("G.sinkacc", x, y): ... except in the objects x and y
		hyp := []string{"(<= (atime r) " + al0 + ")"}
		for _, ex := range x.Args[1:] {
			hyp = append(hyp, not(eq("r", g.trans(ex, env).T)))
		}
		return TV{"(forall ((r Int)) (! (=> " + and(hyp...) + " (= (select " + cur + " r) (select " + old + " r))) :pattern ((select " + cur + " r))))", SBool, nil}
	case "freshslice":
		// freshslice(s): s is nil or its backing array was allocated after entry
		a := g.trans(x.Args[0], env)
		if env.old == nil {
			panic(specErr(x, "freshslice() needs a pre-state"))
		}
		return TV{or(eq("(sl_arr "+a.T+")", "0"), "(> (atime (sl_arr "+a.T+")) "+env.old.heap(g.allocHeap())+")"), SBool, nil}
	case "as":
		// as(x, "*pkg.Type"): view a reference (e.g. an interface value) at a concrete type
		a := g.trans(x.Args[0], env)
		t := g.P.lookupType(x.Args[1].Str)
		if t == nil {
			panic(specErr(x, "unknown type %s", x.Args[1].Str))
		}
		return TV{a.T, a.S, t}
	case "ownerof":
		// ownerof(x, "pkg.Type", "field"): the object whose embedded struct field `field` is x
		a := g.trans(x.Args[0], env)
		t := g.P.lookupType(x.Args[1].Str)
		if t == nil {
			panic(specErr(x, "unknown type %s", x.Args[1].Str))
		}
		s, ok := t.Underlying().(*types.Struct)
		if !ok {
			panic(specErr(x, "ownerof needs a struct type"))
		}
		for i := 0; i < s.NumFields(); i++ {
			if s.Field(i).Name() == x.Args[2].Str {
				fn := sym("fld." + typeKey(t) + "." + x.Args[2].Str)
				g.declare(fn, "(Int) Int")
				g.declare(fn+".inv", "(Int) Int")
				return TV{"(" + fn + ".inv " + a.T + ")", SInt, types.NewPointer(t)}
			}
		}
		panic(specErr(x, "no such field"))
	case "subobj":
		// subobj(x, "field"): reference of an embedded struct field (e.g. a mutex)
		a := g.trans(x.Args[0], env)
		st := deref(a.Type)
		s, ok := st.Underlying().(*types.Struct)
		if !ok {
			panic(specErr(x, "subobj needs a struct pointer"))
		}
		for i := 0; i < s.NumFields(); i++ {
			if s.Field(i).Name() == x.Args[1].Str {
				return TV{g.subObj(st, s.Field(i), a.T), SInt, types.NewPointer(s.Field(i).Type())}
			}
		}
		panic(specErr(x, "no such field"))
	}
	fn := g.S.Fns[x.Name]
	if fn == nil {
		panic(specErr(x, "unknown spec function %s", x.Name))
	}
	if len(fn.Params) != len(x.Args) {
		panic(specErr(x, "%s takes %d arguments", x.Name, len(fn.Params)))
	}
	rs, rt := specTypeOfName(g.P, fn.Ret)
	if fn.Body != nil {
		// macro expansion in the caller's environment (may mention heap through its arguments)
		g.macroDepth++
		if g.macroDepth > 20 {
			panic(specErr(x, "spec function %s is recursive; declare it with ufn + axioms", x.Name))
		}
		defer func() { g.macroDepth-- }()
		e2 := &Env{g: g, vars: map[string]TV{}, heapState: env.heapState, pkg: env.pkg}
		if env.old != nil {
			o := &Env{g: g, vars: e2.vars, heapState: env.old.heapState, pkg: env.pkg}
			if env.old.heapState == nil {
				o.heapState = nil
			}
			e2.old = o
		}
		for i, p := range fn.Params {
			a := g.trans(x.Args[i], env)
			ps, pt := specTypeOfName(g.P, p.Type)
			if a.S != ps {
				panic(specErr(x, "argument %d of %s: sort %s, want %s", i+1, x.Name, a.S, ps))
			}
			if pt != nil && (a.Type == nil || p.Type != "int" && p.Type != "bool" && p.Type != "string") {
				a.Type = pt
			}
			e2.vars[p.Name] = a
		}
		r := g.trans(fn.Body, e2)
		if r.S != rs {
			panic(specErr(x, "body of %s has sort %s, declared %s", x.Name, r.S, rs))
		}
		return r
	}
	var args []string
	for i, a := range x.Args {
		tv := g.trans(a, env)
		ps, _ := specTypeOfName(g.P, fn.Params[i].Type)
		if tv.S != ps {
			panic(specErr(x, "argument %d of %s: sort %s, want %s", i+1, x.Name, tv.S, ps))
		}
		args = append(args, tv.T)
	}
	if len(args) == 0 {
		return TV{"spec." + x.Name, rs, rt}
	}
	return TV{"(spec." + x.Name + " " + strings.Join(args, " ") + ")", rs, rt}
}

// ---------------------------------------------------------------------------
// environments for the function under verification

func (g *Gen) baseEnv() *Env {
	env := &Env{g: g, vars: map[string]TV{}}
	if g.fn.Pkg != nil {
		env.pkg = g.fn.Pkg.Pkg
	} else if g.fn.Parent() != nil && g.fn.Parent().Pkg != nil {
		env.pkg = g.fn.Parent().Pkg.Pkg
	}
	for _, p := range g.fn.Params {
		env.vars[p.Name()] = TV{g.v(p), sortOf(p.Type()), p.Type()}
	}
	if g.ctr != nil && g.ctr.Positional && len(g.ctr.Params) == len(g.fn.Params) {
		for i, p := range g.fn.Params {
			env.vars[g.ctr.Params[i]] = TV{g.v(p), sortOf(p.Type()), p.Type()}
		}
	}
	return env
}

// fnEnv is the environment for requires (ret == nil) and ensures (ret != nil).
func (g *Gen) fnEnv(ret *ssa.Return) *Env {
	env := g.baseEnv()
	fn := g.fn
	env.lookup = func(name string, e *Env) (TV, bool) {
		// free variables are captured by reference: name denotes the cell's content
		for _, fv := range fn.FreeVars {
			if fv.Name() == name {
				return g.derefVar(fv, e), true
			}
		}
		return TV{}, false
	}
	oldEnv := &Env{g: g, vars: env.vars, lookup: env.lookup, heapState: g.entry[-1], pkg: env.pkg}
	if g.entry[-1] == nil {
		oldEnv.heapState = map[string]string{}
	}
	env.old = oldEnv
	if ret != nil {
		res := fn.Signature.Results()
		for i := 0; i < res.Len(); i++ {
			tv := TV{g.v(ret.Results[i]), sortOf(res.At(i).Type()), res.At(i).Type()}
			if n := res.At(i).Name(); n != "" && n != "_" {
				env.vars[n] = tv
			}
			if g.ctr != nil && i < len(g.ctr.Results) {
				env.vars[g.ctr.Results[i]] = tv
			}
			env.vars[fmt.Sprintf("r%d", i)] = tv
			if res.Len() == 1 {
				env.vars["result"] = tv
			}
		}
	}
	return env
}

// derefVar gives the content of a pointer-to-variable value (FreeVar, Alloc).
func (g *Gen) derefVar(p ssa.Value, e *Env) TV {
	elem := deref(p.Type())
	if isStructT(elem) || isArrayT(elem) {
		return TV{g.v(p), SInt, p.Type()}
	}
	h := g.cellHeap(elem)
	return TV{"(select " + e.heap(h) + " " + g.v(p) + ")", sortOf(elem), elem}
}

// resolveLocal finds the SSA value a source-level local name denotes at block b
// (before instruction index limit in b; limit < 0 means: at the block's start).
func (g *Gen) resolveLocal(name string, b *ssa.BasicBlock, limit int, e *Env) (TV, bool) {
	fn := g.fn
	for _, fv := range fn.FreeVars {
		if fv.Name() == name {
			return g.derefVar(fv, e), true
		}
	}
	// address-taken locals / named results
	for _, bb := range fn.Blocks {
		for _, in := range bb.Instrs {
			if al, ok := in.(*ssa.Alloc); ok && al.Comment == name {
				return g.derefVar(al, e), true
			}
		}
	}
	var best ssa.Value
	bestAddr := false
	for _, bb := range fn.Blocks {
		if !(bb == b || bb.Dominates(b)) {
			continue
		}
		for i, in := range bb.Instrs {
			if bb == b && (limit < 0 || i >= limit) {
				break
			}
			// a register variable that is assigned on some paths only reaches a join as a phi named after it: the phi
			// of a dominating block is a later value of the variable than any DebugRef of the blocks before it
			if phi, isPhi := in.(*ssa.Phi); isPhi && phi.Comment == name {
				if _, isT := phi.Type().(*types.Tuple); !isT && (best == nil || dominatesOrSame(blockOf(best), bb)) {
					best, bestAddr = phi, false
				}
				continue
			}
			dr, ok := in.(*ssa.DebugRef)
			if !ok {
				continue
			}
			id, ok := dr.Expr.(*ast.Ident)
			if !ok || id.Name != name {
				continue
			}
			// skip the second DebugRef go/ssa emits for an implicitly converted use
			if obj := dr.Object(); obj != nil && !dr.IsAddr && !types.Identical(dr.X.Type(), obj.Type()) {
				continue
			}
			// prefer the deepest dominator: later blocks in dominator order override
			if best == nil || dominatesOrSame(blockOf(best), bb) {
				best, bestAddr = dr.X, dr.IsAddr
			}
		}
	}
	if best == nil {
		return TV{}, false
	}
	if bestAddr {
		return g.derefVar(best, e), true
	}
	return TV{g.v(best), sortOf(best.Type()), best.Type()}, true
}

func blockOf(v ssa.Value) *ssa.BasicBlock {
	if in, ok := v.(ssa.Instruction); ok {
		return in.Block()
	}
	return nil
}

func dominatesOrSame(a, b *ssa.BasicBlock) bool {
	if a == nil {
		return true
	}
	return a == b || a.Dominates(b)
}

// loopEnv: environment for invariants at loop head b. init selects the values on entry.
func (g *Gen) loopEnv(b *ssa.BasicBlock, init bool) *Env {
	env := g.fnEnv(nil)
	// a parameter that is reassigned in the loop is denoted by its loop-carried value
	{
		vars := map[string]TV{}
		for k, v := range env.vars {
			vars[k] = v
		}
		for _, in := range b.Instrs {
			phi, ok := in.(*ssa.Phi)
			if !ok {
				break
			}
			if _, isParam := vars[phi.Comment]; isParam && phi.Comment != "" {
				if init {
					vars[phi.Comment] = TV{g.phiInit[phi], sortOf(phi.Type()), phi.Type()}
				} else {
					vars[phi.Comment] = TV{g.v(phi), sortOf(phi.Type()), phi.Type()}
				}
			}
		}
		env.vars = vars
	}
	base := env.lookup
	env.lookup = func(name string, e *Env) (TV, bool) {
		for _, in := range b.Instrs {
			phi, ok := in.(*ssa.Phi)
			if !ok {
				break
			}
			if phi.Comment == name {
				if init {
					return TV{g.phiInit[phi], sortOf(phi.Type()), phi.Type()}, true
				}
				return TV{g.v(phi), sortOf(phi.Type()), phi.Type()}, true
			}
		}
		if tv, ok := base(name, e); ok {
			return tv, true
		}
		return g.resolveLocal(name, b, -1, e)
	}
	env.old.lookup = env.lookup
	return env
}

// loopEnvBack: environment at the end of block p for the back edge p -> head.
func (g *Gen) loopEnvBack(head, p *ssa.BasicBlock) *Env {
	env := g.fnEnv(nil)
	base := env.lookup
	idx := -1
	for i, q := range head.Preds {
		if q == p {
			idx = i
		}
	}
	{
		vars := map[string]TV{}
		for k, v := range env.vars {
			vars[k] = v
		}
		for _, in := range head.Instrs {
			phi, ok := in.(*ssa.Phi)
			if !ok {
				break
			}
			if _, isParam := vars[phi.Comment]; isParam && phi.Comment != "" {
				ev := phi.Edges[idx]
				vars[phi.Comment] = TV{g.v(ev), sortOf(phi.Type()), phi.Type()}
			}
		}
		env.vars = vars
	}
	env.lookup = func(name string, e *Env) (TV, bool) {
		for _, in := range head.Instrs {
			phi, ok := in.(*ssa.Phi)
			if !ok {
				break
			}
			if phi.Comment == name {
				ev := phi.Edges[idx]
				return TV{g.v(ev), sortOf(phi.Type()), phi.Type()}, true
			}
		}
		if tv, ok := base(name, e); ok {
			return tv, true
		}
		return g.resolveLocal(name, head, -1, e)
	}
	env.old.lookup = env.lookup
	return env
}
