package main

import (
	"fmt"
	"go/ast"
	"go/constant"
	"go/token"
	"go/types"
	"hash/fnv"
	"sort"
	"strings"

	"golang.org/x/tools/go/ssa"
)

// ---------------------------------------------------------------------------
// data structures

type cons struct {
	text string
	blk  int // -1: global (always included); -2: included when symbol lit occurs
	pos  int
	lit  string
}

type Obl struct {
	Fn     string // function key
	Name   string // full obligation name  fnkey#kind:detail
	Kind   string // bounds, slice, nil, pre, post, inv-init, inv-keep, frame, assert, ...
	Tag    string
	Props  []string // owning properties (empty: common / safety)
	Safety bool
	blk    int
	pos    int
	cond   string
	SrcPos string
	g      *Gen
	// results
	Result string // unsat | sat | unknown | timeout
	Solver string
	TimeS  float64
	Model  string
}

type TV struct {
	T    string
	S    Sort
	Type types.Type // may be nil (ghost / spec values)
}

type Gen struct {
	// inlining (inline.go)
	parent   *Gen
	pfx      string
	bind     map[ssa.Value]TV
	inlRets  []inlineRet
	ninl     int
	inlined  []string
	knownFns map[string]bool // function keys recorded in locks/functions.json (root Gen only)
	loopVariants map[string]string // loops with a recorded termination argument (nil: not demanded)
	termination  bool                  // props "termination": every loop and every recursive call needs a proved variant (termination.go)
	termCyc      map[*ssa.Function]int // functions on a cycle of the call graph -> id of their SCC
	structLoops  []string              // loops that end by the semantics of range (no obligation), for the evidence
	privCells map[*ssa.Alloc][]*ssa.MakeClosure
	outer    *Env            // inlined callee: the caller's variables at the call
	outerAlias map[string]string
	aliasOf map[string]string                       // renamed variables of fn: recorded name -> current name
	aliasFn func(*ssa.Function) map[string]string // the same for callees
	renames map[string]string                       // aliases actually used (reported)
	P    *Program
	S    *SpecSet
	prop string
	fn   *ssa.Function
	key  string
	ctr  *Contract

	decl    map[string]string
	declOrd []string
	cons    []cons
	curBlk  int
	curPos  int
	obls    []*Obl
	oblSeen map[string]int

	back     map[[2]int]bool
	heads    map[int]bool
	headOrd  map[int]int // head block index -> loop ordinal (1-based)
	rpo      []*ssa.BasicBlock
	loopBody map[int]map[int]bool

	heapSort map[string]string
	cur      map[string]string         // current heap state
	exit     map[int]map[string]string // exit heap state per block
	entry    map[int]map[string]string // heap state at block entry (after loop havoc)
	preHavoc map[int]map[string]string // heap state at loop head before havoc
	blockMod map[int]map[string]bool   // heaps modified per block (recorded in pass 1)
	allMods  map[string]bool
	pass     int
	nver     int
	nfresh   int

	strLits  map[string]string
	typeIDs  map[string]int
	globals  map[string]bool
	closures map[ssa.Value]*ssa.MakeClosure
	phiInit  map[*ssa.Phi]string
	defers   []*ssa.Defer
	callOrd  map[string]int
	siteOrd  map[string]int
	atSeen   map[*AtStmt]bool
	retOrd   int
	warnings []string
	outOfSub []string
	usedCtr  map[string]bool // contract keys used at call sites
	uncontr  map[string]bool // external callees without contract
	inferred map[string]bool // in-repo callees used through inferred frames
	frames   *FrameInfo
	macroDepth int
	preDecl    map[string]bool // symbols declared by the spec prelude
	forbid     []Forbid
	guardedBy  []GuardedBy
	forbidFields []ForbidField
	freeUsed   map[string]bool
	orderHeaps []string
	pass1      map[int]map[string]bool
	nbound     int
}

type FrameInfo struct {
	mods     map[*ssa.Function]map[string]bool
	locs     map[*ssa.Function]map[string]*locSet
	reads    map[*ssa.Function]map[string]bool // heaps a function (transitively) loads from
	impure   map[*ssa.Function]bool            // calls something outside the repository / unknown, allocates, or stores
	restores map[*ssa.Function]map[string]bool
	sorts    map[string]string
	fb    *frameBuilder
}

func (g *Gen) warn(f string, a ...interface{}) {
	if g.parent != nil {
		g.parent.warn(f, a...)
		return
	}
	w := fmt.Sprintf(f, a...)
	for _, x := range g.warnings {
		if x == w {
			return
		}
	}
	g.warnings = append(g.warnings, w)
}

func (g *Gen) declare(name, sortSig string) {
	if g.parent != nil {
		g.parent.declare(name, sortSig)
		return
	}
	if _, ok := g.decl[name]; ok {
		return
	}
	if g.preDecl[name] {
		return
	}
	g.decl[name] = sortSig
	g.declOrd = append(g.declOrd, name)
}

func (g *Gen) declConst(name string, s Sort) { g.declare(name, "() "+string(s)) }

func (g *Gen) add(c string) {
	if c == "true" || c == "" {
		return
	}
	if g.parent != nil {
		g.parent.add(c)
		return
	}
	g.curPos++
	g.cons = append(g.cons, cons{text: c, blk: g.curBlk, pos: g.curPos})
}

func (g *Gen) addGlobal(c string) {
	if g.parent != nil {
		g.parent.addGlobal(c)
		return
	}
	g.cons = append(g.cons, cons{text: c, blk: -1})
}

func (g *Gen) at(b int) string { return fmt.Sprintf("at_%s%d", g.pfx, b) }

// guard adds a constraint that holds whenever the current block is reached.
func (g *Gen) guard(c string) {
	if c == "true" || c == "" {
		return
	}
	g.add(implies(g.at(g.curBlk), c))
}

func (g *Gen) fresh(prefix string, s Sort) string {
	if g.parent != nil {
		return g.parent.fresh(prefix, s)
	}
	g.nfresh++
	n := fmt.Sprintf("%s!%d", sym(prefix), g.nfresh)
	g.declConst(n, s)
	return n
}

func (g *Gen) freshSig(prefix, sig string) string {
	if g.parent != nil {
		return g.parent.freshSig(prefix, sig)
	}
	g.nfresh++
	n := fmt.Sprintf("%s!%d", sym(prefix), g.nfresh)
	g.declare(n, sig)
	return n
}

// ---------------------------------------------------------------------------
// obligations

func (g *Gen) oblige(kind, detail, tag string, props []string, safety bool, cond string, pos token.Pos) *Obl {
	if g.parent != nil {
		// an obligation inside an inlined callee is one of the caller, under the callee's block guard
		return g.parent.oblige(kind, detail, tag, props, safety, implies(g.at(g.curBlk), cond), pos)
	}
	name := g.key + "#" + kind
	if tag != "" {
		name += "[" + tag + "]"
	}
	if detail != "" {
		name += ":" + detail
	}
	g.oblSeen[name]++
	if n := g.oblSeen[name]; n > 1 {
		name = fmt.Sprintf("%s#%d", name, n)
	}
	g.curPos++
	o := &Obl{Fn: g.key, Name: name, Kind: kind, Tag: tag, Props: props, Safety: safety, blk: g.curBlk, pos: g.curPos, cond: cond, SrcPos: g.P.posString(pos), g: g}
	g.obls = append(g.obls, o)
	// later code may rely on it (terminal obligations at a return are independent of each other)
	if kind != "post" && kind != "frame" && kind != "restore" {
		g.guard(cond)
	}
	return o
}

func (g *Gen) srcOf(pos token.Pos, kinds ...string) string {
	return g.P.srcText(pos, func(n ast.Node) bool {
		for _, k := range kinds {
			switch k {
			case "index":
				if _, ok := n.(*ast.IndexExpr); ok {
					return true
				}
			case "slice":
				if _, ok := n.(*ast.SliceExpr); ok {
					return true
				}
			case "sel":
				if _, ok := n.(*ast.SelectorExpr); ok {
					return true
				}
			case "call":
				if _, ok := n.(*ast.CallExpr); ok {
					return true
				}
			case "assign":
				if _, ok := n.(*ast.AssignStmt); ok {
					return true
				}
			case "star":
				if _, ok := n.(*ast.StarExpr); ok {
					return true
				}
			case "assert":
				if _, ok := n.(*ast.TypeAssertExpr); ok {
					return true
				}
			case "binary":
				if _, ok := n.(*ast.BinaryExpr); ok {
					return true
				}
			}
		}
		return false
	})
}

// ---------------------------------------------------------------------------
// heap

func (g *Gen) heapDecl(name, sortSig string) {
	if _, ok := g.heapSort[name]; !ok {
		g.heapSort[name] = sortSig
	}
}

// heap returns the current version of heap name.
func (g *Gen) heap(name string) string {
	return g.heapIn(g.cur, name)
}

func (g *Gen) heapIn(st map[string]string, name string) string {
	if t, ok := st[name]; ok {
		return t
	}
	v := sym(name) + "@0"
	srt, ok := g.heapSort[name]
	if !ok {
		panic("heap without sort: " + name)
	}
	g.declare(v, "() "+srt)
	return v
}

func (g *Gen) newVersion(name string) string {
	if g.parent != nil {
		return g.parent.newVersion(name)
	}
	g.nver++
	v := fmt.Sprintf("%s@%d", sym(name), g.nver)
	g.declare(v, "() "+g.heapSort[name])
	return v
}

func (g *Gen) setHeap(name, term string) {
	g.cur[name] = term
	g.recordMod(name)
}

func (g *Gen) recordMod(name string) {
	if g.parent != nil {
		g.parent.recordMod(name)
		return
	}
	if g.curBlk >= 0 {
		if g.blockMod[g.curBlk] == nil {
			g.blockMod[g.curBlk] = map[string]bool{}
		}
		g.blockMod[g.curBlk][name] = true
	}
	g.allMods[name] = true
}

// assignHeap installs a new version equal to term (keeps terms small).
func (g *Gen) assignHeap(name, term string) {
	v := g.newVersion(name)
	g.guard(eq(v, term))
	g.setHeap(name, v)
}

func (g *Gen) havocHeap(name string) string {
	v := g.newVersion(name)
	g.setHeap(name, v)
	return v
}

func copyState(m map[string]string) map[string]string {
	c := make(map[string]string, len(m))
	for k, v := range m {
		c[k] = v
	}
	return c
}

func typeKey(t types.Type) string {
	switch t := t.(type) {
	case *types.Named:
		return typeShort(t)
	case *types.Alias:
		return typeKey(types.Unalias(t))
	case *types.Pointer:
		return "*" + typeKey(t.Elem())
	case *types.Slice:
		return "[]" + typeKey(t.Elem())
	case *types.Array:
		return fmt.Sprintf("[%d]%s", t.Len(), typeKey(t.Elem()))
	case *types.Map:
		return "map[" + typeKey(t.Key()) + "]" + typeKey(t.Elem())
	case *types.Basic:
		return t.Name()
	case *types.Interface:
		if t.NumMethods() == 0 {
			return "any"
		}
	}
	return t.String()
}

// underKey is typeKey of the underlying type for named non-struct types (so that
// Header/string, MIMEHeader/map[string][]string share heaps across conversions).
func underKey(t types.Type) string {
	t = types.Unalias(t)
	if n, ok := t.(*types.Named); ok {
		switch n.Underlying().(type) {
		case *types.Struct, *types.Interface:
			return typeKey(t)
		}
		return underKey(n.Underlying())
	}
	switch t := t.(type) {
	case *types.Slice:
		return "[]" + underKey(t.Elem())
	case *types.Map:
		return "map[" + underKey(t.Key()) + "]" + underKey(t.Elem())
	case *types.Pointer:
		return "*" + underKey(t.Elem())
	case *types.Array:
		return fmt.Sprintf("[%d]%s", t.Len(), underKey(t.Elem()))
	case *types.Basic:
		if t.Kind() == types.Uint8 {
			return "byte"
		}
	}
	return typeKey(t)
}

func arrSortSig(elem Sort) string { return "(Array Int (Array Int " + string(elem) + "))" }

func (g *Gen) fieldHeap(structT types.Type, field *types.Var) string {
	n := "H." + typeKey(structT) + "." + field.Name()
	g.heapDecl(n, "(Array Int "+string(sortOf(field.Type()))+")")
	return n
}

func (g *Gen) ghostHeap(name string) (string, Sort, types.Type) {
	gf := g.S.Ghost[name]
	if gf == nil {
		return "", "", nil
	}
	s := sortOfName(gf.Type)
	var t types.Type
	switch gf.Type {
	case "int":
		t = types.Typ[types.Int]
	case "bool":
		t = types.Typ[types.Bool]
	case "string":
		t = types.Typ[types.String]
	case "ref":
	default:
		t = g.P.lookupType(gf.Type)
		if t == nil {
			panic(fmt.Errorf("ghost field %s: unknown type %s", name, gf.Type))
		}
		s = sortOf(t)
	}
	n := "G." + name
	g.heapDecl(n, "(Array Int "+string(s)+")")
	return n, s, t
}

// arrHeap: arrays are separated by their exact element type ([]AddrHeader and []string are not
// convertible into each other, so they cannot share storage); byte and uint8 are one type.
func (g *Gen) arrHeap(elem types.Type) string {
	k := typeKey(elem)
	if b, ok := types.Unalias(elem).(*types.Basic); ok && b.Kind() == types.Uint8 {
		k = "byte"
	}
	n := "A." + k
	g.heapDecl(n, arrSortSig(sortOf(elem)))
	return n
}

func (g *Gen) cellHeap(t types.Type) string {
	n := "C." + underKey(t)
	g.heapDecl(n, "(Array Int "+string(sortOf(t))+")")
	return n
}

// exactKey names a type without looking through defined types: two map types are convertible into
// each other only when key and element types are identical, so maps of different exact key / element
// types live in different heaps (map[Header][]string is not a textproto.MIMEHeader).
func exactKey(t types.Type) string {
	t = types.Unalias(t)
	switch t := t.(type) {
	case *types.Named:
		return typeKey(t)
	case *types.Slice:
		return "[]" + exactKey(t.Elem())
	case *types.Map:
		return "map[" + exactKey(t.Key()) + "]" + exactKey(t.Elem())
	case *types.Pointer:
		return "*" + exactKey(t.Elem())
	case *types.Array:
		return fmt.Sprintf("[%d]%s", t.Len(), exactKey(t.Elem()))
	case *types.Basic:
		if t.Kind() == types.Uint8 {
			return "byte"
		}
	}
	return typeKey(t)
}

func (g *Gen) mapHeaps(mt *types.Map) (has, val string) {
	k := exactKey(mt.Key()) + "." + exactKey(mt.Elem())
	has, val = "M."+k+".has", "M."+k+".val"
	ks := string(sortOf(mt.Key()))
	g.heapDecl(has, "(Array Int (Array "+ks+" Bool))")
	g.heapDecl(val, "(Array Int (Array "+ks+" "+string(sortOf(mt.Elem()))+"))")
	return
}

func (g *Gen) allocHeap() string {
	g.heapDecl("alloc", "Int")
	return "alloc"
}

// ---------------------------------------------------------------------------
// values

func (g *Gen) typeID(t types.Type) string {
	k := underKeyNamed(t)
	id, ok := g.typeIDs[k]
	if !ok {
		h := fnv.New32a()
		h.Write([]byte(k))
		id = int(h.Sum32()&0x3fffffff) + 1
		g.typeIDs[k] = id
	}
	return fmt.Sprintf("%d", id)
}

func underKeyNamed(t types.Type) string { return typeKey(types.Unalias(t)) }

func (g *Gen) strLit(s string) string {
	if s == "" {
		return "str.empty"
	}
	if n, ok := g.strLits[s]; ok {
		return n
	}
	n := litName(s)
	g.strLits[s] = n
	if g.preDecl[n] {
		return n
	}
	g.declConst(n, SStr)
	var facts []string
	facts = append(facts, eq("(slen "+n+")", intLit(int64(len(s)))))
	if len(s) <= 64 {
		for i := 0; i < len(s); i++ {
			facts = append(facts, eq(fmt.Sprintf("(sat %s %d)", n, i), intLit(int64(s[i]))))
		}
	}
	g.cons = append(g.cons, cons{text: and(facts...), blk: -2, lit: n})
	return n
}

func litName(s string) string {
	var b strings.Builder
	b.WriteString("lit.")
	for i := 0; i < len(s) && i < 24; i++ {
		c := s[i]
		if c >= 'a' && c <= 'z' || c >= 'A' && c <= 'Z' || c >= '0' && c <= '9' {
			b.WriteByte(c)
		} else {
			b.WriteByte('_')
		}
	}
	h := fnv.New64a()
	h.Write([]byte(s))
	fmt.Fprintf(&b, ".%x", h.Sum64())
	return b.String()
}

func (g *Gen) valName(v ssa.Value) string {
	switch v := v.(type) {
	case *ssa.Parameter:
		return "p." + g.pfx + sym(v.Name())
	case *ssa.FreeVar:
		return "fv." + g.pfx + sym(v.Name())
	case *ssa.Global:
		return "glob." + sym(pkgShort(v.Pkg.Pkg)+"."+v.Name())
	case *ssa.Function:
		return "fn." + sym(v.String())
	case *ssa.Builtin:
		return "builtin." + v.Name()
	}
	return "v." + g.pfx + sym(v.Name())
}

// v returns the SMT term of an SSA value.
func (g *Gen) v(x ssa.Value) string {
	if tv, ok := g.bind[x]; ok {
		return tv.T
	}
	switch c := x.(type) {
	case *ssa.Const:
		return g.constTerm(c)
	case *ssa.Global:
		n := g.valName(c)
		if !g.globals[n] {
			g.globals[n] = true
			g.declConst(n, SInt)
		}
		return n
	case *ssa.Function:
		n := g.valName(c)
		if !g.globals[n] {
			g.globals[n] = true
			g.declConst(n, SInt)
		}
		return n
	case *ssa.FieldAddr:
		// the address itself used as a value (escaping address; flagged out-of-subset
		// where the pointee is a scalar cell): a non-nil reference determined by the base
		lv := g.addr(c)
		if lv.kind == "ref" {
			return lv.ref
		}
		st := deref(c.X.Type())
		return g.subObj(st, st.Underlying().(*types.Struct).Field(c.Field), g.objRef(c.X))
	case *ssa.IndexAddr:
		lv := g.addr(c)
		if lv.kind == "ref" {
			return lv.ref
		}
		g.declare("elemaddr", "(Int Int) Int")
		return "(elemaddr " + lv.ref + " " + lv.idx + ")"
	}
	n := g.valName(x)
	if _, ok := x.Type().(*types.Tuple); ok {
		return n
	}
	g.declConst(n, sortOf(x.Type()))
	return n
}

func (g *Gen) tupleComp(x ssa.Value, i int) string {
	tt := x.Type().(*types.Tuple)
	n := fmt.Sprintf("%s.%d", g.valName(x), i)
	g.declConst(n, sortOf(tt.At(i).Type()))
	return n
}

func (g *Gen) constTerm(c *ssa.Const) string {
	s := sortOf(c.Type())
	if c.Value == nil {
		return zeroOf(s)
	}
	switch s {
	case SBool:
		if constant.BoolVal(c.Value) {
			return "true"
		}
		return "false"
	case SStr:
		return g.strLit(constant.StringVal(c.Value))
	case SInt:
		if c.Value.Kind() == constant.Int {
			if i, ok := constant.Int64Val(c.Value); ok {
				return intLit(i)
			}
			if u, ok := constant.Uint64Val(c.Value); ok {
				return fmt.Sprintf("%d", u)
			}
		}
		if c.Value.Kind() == constant.Float {
			// floats are opaque; give integral floats their value
			if i, ok := constant.Int64Val(constant.ToInt(c.Value)); ok {
				return intLit(i)
			}
		}
		return g.fresh("const", SInt)
	}
	return zeroOf(s)
}

// typeFacts returns range / well-formedness facts for a value of Go type t
// coming from outside (parameter, load, call result).
func (g *Gen) typeFacts(term string, t types.Type) string {
	if t == nil {
		return "true"
	}
	switch u := t.Underlying().(type) {
	case *types.Basic:
		if u.Info()&types.IsInteger != 0 {
			switch u.Kind() {
			case types.Uint8:
				return and("(<= 0 "+term+")", "(<= "+term+" 255)")
			case types.Uint16:
				return and("(<= 0 "+term+")", "(<= "+term+" 65535)")
			case types.Uint, types.Uint32, types.Uint64, types.Uintptr:
				return "(<= 0 " + term + ")"
			case types.Int8:
				return and("(<= (- 128) "+term+")", "(<= "+term+" 127)")
			}
		}
	case *types.Slice:
		return and("(<= 0 (sl_len "+term+"))", "(<= (sl_len "+term+") (sl_cap "+term+"))", "(<= 0 (sl_off "+term+"))",
			implies(eq("(sl_arr "+term+")", "0"), eq("(sl_cap "+term+")", "0")),
			or(eq("(sl_arr "+term+")", "0"), "(<= (atime (sl_arr "+term+")) "+g.heap(g.allocHeap())+")"))
	case *types.Pointer:
		var fs []string
		fs = append(fs, or(eq(term, "0"), "(<= (atime "+term+") "+g.heap(g.allocHeap())+")"))
		if _, ok := types.Unalias(u.Elem()).(*types.Named); ok {
			fs = append(fs, or(eq(term, "0"), eq("(dyntype "+term+")", g.typeID(t))))
		}
		return and(fs...)
	case *types.Map, *types.Interface, *types.Signature, *types.Chan:
		return or(eq(term, "0"), "(<= (atime "+term+") "+g.heap(g.allocHeap())+")")
	}
	return "true"
}

// ---------------------------------------------------------------------------
// control-flow preparation

func (g *Gen) prepareCFG() {
	fn := g.fn
	g.back = map[[2]int]bool{}
	g.heads = map[int]bool{}
	state := map[int]int{}
	var post []*ssa.BasicBlock
	var dfs func(b *ssa.BasicBlock)
	dfs = func(b *ssa.BasicBlock) {
		state[b.Index] = 1
		for _, s := range b.Succs {
			if state[s.Index] == 1 {
				g.back[[2]int{b.Index, s.Index}] = true
				g.heads[s.Index] = true
			} else if state[s.Index] == 0 {
				dfs(s)
			}
		}
		state[b.Index] = 2
		post = append(post, b)
	}
	dfs(fn.Blocks[0])
	g.rpo = nil
	for i := len(post) - 1; i >= 0; i-- {
		g.rpo = append(g.rpo, post[i])
	}
	// loop ordinals by head block index
	var hs []int
	for h := range g.heads {
		hs = append(hs, h)
	}
	sort.Ints(hs)
	g.headOrd = map[int]int{}
	for i, h := range hs {
		g.headOrd[h] = i + 1
	}
	// loop bodies: blocks reachable from head that can reach a back-edge source
	g.loopBody = map[int]map[int]bool{}
	for _, h := range hs {
		fwd := map[int]bool{}
		var w []*ssa.BasicBlock
		w = append(w, fn.Blocks[h])
		fwd[h] = true
		for len(w) > 0 {
			b := w[len(w)-1]
			w = w[:len(w)-1]
			for _, s := range b.Succs {
				if !fwd[s.Index] {
					fwd[s.Index] = true
					w = append(w, s)
				}
			}
		}
		bwd := map[int]bool{}
		for e := range g.back {
			if e[1] == h && !bwd[e[0]] {
				bwd[e[0]] = true
				w = append(w, fn.Blocks[e[0]])
			}
		}
		for len(w) > 0 {
			b := w[len(w)-1]
			w = w[:len(w)-1]
			if b.Index == h {
				continue
			}
			for _, p := range b.Preds {
				if !bwd[p.Index] {
					bwd[p.Index] = true
					w = append(w, p)
				}
			}
		}
		body := map[int]bool{h: true}
		for b := range fwd {
			if bwd[b] {
				body[b] = true
			}
		}
		g.loopBody[h] = body
	}
}

func (g *Gen) edgeCond(p, s *ssa.BasicBlock) string {
	if len(p.Instrs) == 0 {
		return "true"
	}
	if iff, ok := p.Instrs[len(p.Instrs)-1].(*ssa.If); ok {
		c := g.v(iff.Cond)
		if p.Succs[0] == s && p.Succs[1] == s {
			return "true"
		}
		if p.Succs[0] == s {
			return c
		}
		return not(c)
	}
	return "true"
}

func (g *Gen) taken(p, s *ssa.BasicBlock) string {
	return and(g.at(p.Index), g.edgeCond(p, s))
}

// ancestors in the cut CFG (back edges removed), including b itself.
func (g *Gen) ancestors(b int) map[int]bool {
	anc := map[int]bool{b: true}
	work := []int{b}
	for len(work) > 0 {
		x := work[len(work)-1]
		work = work[:len(work)-1]
		for _, p := range g.fn.Blocks[x].Preds {
			if g.back[[2]int{p.Index, x}] || anc[p.Index] {
				continue
			}
			anc[p.Index] = true
			work = append(work, p.Index)
		}
	}
	return anc
}

// ---------------------------------------------------------------------------
// driver for one function

func newGen(P *Program, S *SpecSet, prop string, fn *ssa.Function, fr *FrameInfo) *Gen {
	g := &Gen{P: P, S: S, prop: prop, fn: fn, key: P.KeyOf[fn], frames: fr}
	if g.key == "" {
		g.key = funcKey(fn)
	}
	g.ctr = S.Contracts[g.key]
	if g.ctr != nil && g.ctr.Assumed {
		g.ctr = nil
	}
	g.blockMod = map[int]map[string]bool{}
	return g
}

func (g *Gen) reset() {
	g.decl = map[string]string{}
	g.declOrd = nil
	g.cons = nil
	g.obls = nil
	g.oblSeen = map[string]int{}
	if g.heapSort == nil {
		g.heapSort = map[string]string{}
	}
	g.cur = map[string]string{}
	g.exit = map[int]map[string]string{}
	g.entry = map[int]map[string]string{}
	g.preHavoc = map[int]map[string]string{}
	g.allMods = map[string]bool{}
	g.nver, g.nfresh = 0, 0
	g.strLits = map[string]string{}
	g.typeIDs = map[string]int{}
	g.globals = map[string]bool{}
	g.closures = map[ssa.Value]*ssa.MakeClosure{}
	g.phiInit = map[*ssa.Phi]string{}
	g.defers = nil
	g.callOrd = map[string]int{}
	g.siteOrd = map[string]int{}
	g.atSeen = map[*AtStmt]bool{}
	g.retOrd = 0
	g.warnings = nil
	g.outOfSub = nil
	g.usedCtr = map[string]bool{}
	g.uncontr = map[string]bool{}
	g.inferred = map[string]bool{}
	g.freeUsed = map[string]bool{}
}

// Generate runs VC generation (two passes: the first discovers which heaps each
// block modifies, the second uses that to havoc loop-modified state at loop heads).
func (g *Gen) Generate() (err error) {
	defer func() {
		if r := recover(); r != nil {
			if e, ok := r.(error); ok {
				err = fmt.Errorf("%s: %v", g.key, e)
				return
			}
			panic(r)
		}
	}()
	g.prepareCFG()
	for g.pass = 1; g.pass <= 2; g.pass++ {
		saved := g.blockMod
		g.reset()
		if g.pass == 2 {
			// keep pass-1 modification sets
			g.blockMod = map[int]map[string]bool{}
			g.run(saved)
		} else {
			g.blockMod = map[int]map[string]bool{}
			g.run(nil)
		}
	}
	return nil
}

func (g *Gen) loopMods(h int, pass1 map[int]map[string]bool) []string {
	set := map[string]bool{}
	for b := range g.loopBody[h] {
		for n := range pass1[b] {
			set[n] = true
		}
	}
	var out []string
	for n := range set {
		out = append(out, n)
	}
	sort.Strings(out)
	return out
}

func (g *Gen) run(pass1 map[int]map[string]bool) {
	fn := g.fn
	g.pass1 = pass1
	for _, b := range fn.Blocks {
		g.declConst(g.at(b.Index), SBool)
	}
	g.curBlk, g.curPos = -1, 0
	g.addGlobal(g.at(0))
	// reachability of blocks
	reach := map[int]bool{}
	for _, b := range g.rpo {
		reach[b.Index] = true
	}
	for _, b := range fn.Blocks {
		if b.Index == 0 {
			continue
		}
		var ins []string
		if reach[b.Index] {
			for _, p := range b.Preds {
				if g.back[[2]int{p.Index, b.Index}] || !reach[p.Index] {
					continue
				}
				ins = append(ins, g.taken(p, b))
			}
		}
		if len(ins) == 0 {
			g.addGlobal(not(g.at(b.Index)))
		} else {
			g.addGlobal(eq(g.at(b.Index), or(ins...)))
		}
	}
	// entry: parameters
	g.curBlk, g.curPos = 0, 0
	g.allocHeap()
	g.entryFacts()
	// requires of own contract are assumed at entry
	env := g.fnEnv(nil)
	if g.ctr != nil {
		for _, cl := range g.ctr.Clauses {
			if cl.Kind == "requires" && cl.visible(g.prop) {
				g.guard(g.transBool(cl.E, env))
			}
		}
	}
	entryState := copyState(g.cur)
	g.entry[-1] = entryState
	g.entryAts()

	for _, b := range g.rpo {
		if b.Index != 0 {
			g.curBlk, g.curPos = b.Index, 0
			g.mergeEntry(b)
		}
		if g.heads[b.Index] {
			g.loopHead(b, pass1)
		}
		g.entry[b.Index] = copyState(g.cur)
		for _, in := range b.Instrs {
			g.instr(b, in)
		}
		// back edges leaving b: invariant preservation
		for _, s := range b.Succs {
			if g.back[[2]int{b.Index, s.Index}] {
				g.backEdge(b, s)
			}
		}
		g.exit[b.Index] = copyState(g.cur)
	}
}

func (g *Gen) entryFacts() {
	fn := g.fn
	al := g.heap("alloc")
	_ = al
	for _, p := range fn.Params {
		t := g.v(p)
		g.guard(g.typeFacts(t, p.Type()))
	}
	for _, fv := range fn.FreeVars {
		t := g.v(fv)
		g.guard(and(not(eq(t, "0")), "(<= (atime "+t+") "+al+")"))
	}
}

// mergeEntry computes the heap state at the entry of b from its forward preds.
func (g *Gen) mergeEntry(b *ssa.BasicBlock) {
	var preds []*ssa.BasicBlock
	for _, p := range b.Preds {
		if g.back[[2]int{p.Index, b.Index}] {
			continue
		}
		if _, ok := g.exit[p.Index]; !ok {
			continue // unreachable pred
		}
		preds = append(preds, p)
	}
	g.cur = map[string]string{}
	if len(preds) == 0 {
		return
	}
	if len(preds) == 1 {
		g.cur = copyState(g.exit[preds[0].Index])
		return
	}
	names := map[string]bool{}
	for _, p := range preds {
		for n := range g.exit[p.Index] {
			names[n] = true
		}
	}
	var ns []string
	for n := range names {
		ns = append(ns, n)
	}
	sort.Strings(ns)
	for _, n := range ns {
		first := g.heapIn(g.exit[preds[0].Index], n)
		same := true
		for _, p := range preds[1:] {
			if g.heapIn(g.exit[p.Index], n) != first {
				same = false
			}
		}
		if same {
			g.cur[n] = first
			continue
		}
		v := g.newVersion(n)
		for _, p := range preds {
			g.add(implies(g.taken(p, b), eq(v, g.heapIn(g.exit[p.Index], n))))
		}
		g.cur[n] = v
	}
}

// ---------------------------------------------------------------------------
// loops

type invClause struct {
	cl   *Clause
	auto string // for inferred bounds: the SMT builder is in autoFn
	name string
}

func (g *Gen) loopInvariants(h int) []*Clause {
	if g.ctr == nil {
		return nil
	}
	var out []*Clause
	for _, cl := range g.ctr.Clauses {
		if cl.Kind == "invariant" && cl.Loop == g.headOrd[h] && cl.visible(g.prop) {
			out = append(out, cl)
		}
	}
	return out
}

// autoBounds finds header phis of the shape phi = [c, phi + k] (k >= 0 constant)
// and returns for each the inferred invariant phi >= c as a function of the phi term.
type autoBound struct {
	phi  *ssa.Phi
	init ssa.Value
}

func (g *Gen) autoBounds(b *ssa.BasicBlock) []autoBound {
	var out []autoBound
	for _, in := range b.Instrs {
		phi, ok := in.(*ssa.Phi)
		if !ok {
			break
		}
		if !isInteger(phi.Type()) {
			continue
		}
		var init ssa.Value
		ok = true
		nInit := 0
		for i, e := range phi.Edges {
			p := b.Preds[i]
			if g.back[[2]int{p.Index, b.Index}] {
				bo, isBin := e.(*ssa.BinOp)
				if !isBin || bo.Op != token.ADD || bo.X != phi {
					// allow phi itself (continue paths)
					if e == phi {
						continue
					}
					ok = false
					break
				}
				c, isC := bo.Y.(*ssa.Const)
				if !isC || c.Value == nil {
					ok = false
					break
				}
				if v, exact := constant.Int64Val(c.Value); !exact || v < 0 {
					ok = false
					break
				}
			} else {
				init = e
				nInit++
			}
		}
		if ok && nInit == 1 {
			if _, isConst := init.(*ssa.Const); isConst {
				out = append(out, autoBound{phi, init})
			}
		}
	}
	return out
}

func (g *Gen) loopHead(b *ssa.BasicBlock, pass1 map[int]map[string]bool) {
	h := b.Index
	if g.termination && g.pass == 2 {
		name := fmt.Sprintf("loop%d", g.headOrd[h])
		if structuralLoop(b) {
			g.structLoops = append(g.structLoops, g.key+"#"+name)
		} else if _, ok := g.loopVariants[g.key+"#"+name]; !ok && !g.hasDecreases(g.headOrd[h]) {
			// neither a range loop nor a loop with a variant (the dec obligations are generated at its back edges)
			g.oblige("termination", name, "", []string{g.prop}, false, "false", ab0pos(b))
		}
	} else if g.loopVariants != nil && g.pass == 2 && strings.HasPrefix(b.Comment, "for.") {
		name := fmt.Sprintf("loop%d", g.headOrd[h])
		if _, ok := g.loopVariants[g.key+"#"+name]; !ok {
			// a `for` loop without a termination argument on a path where every operation has to be bounded
			g.oblige("termination", name, "", []string{g.prop}, false, "false", ab0pos(b))
		}
	}
	// initial values of header phis (merged from forward edges)
	var phis []*ssa.Phi
	for _, in := range b.Instrs {
		if phi, ok := in.(*ssa.Phi); ok {
			phis = append(phis, phi)
		} else {
			break
		}
	}
	for _, phi := range phis {
		if _, isT := phi.Type().(*types.Tuple); isT {
			continue
		}
		init := g.fresh("init."+phi.Name(), sortOf(phi.Type()))
		g.phiInit[phi] = init
		for i, e := range phi.Edges {
			p := b.Preds[i]
			if g.back[[2]int{p.Index, h}] {
				continue
			}
			if _, ok := g.exit[p.Index]; !ok {
				continue
			}
			g.add(implies(g.taken(p, b), eq(init, g.v(e))))
		}
	}
	g.preHavoc[h] = copyState(g.cur)
	invs := g.loopInvariants(h)
	autos := g.autoBounds(b)
	// inv-init
	envInit := g.loopEnv(b, true)
	for _, ab := range autos {
		g.oblige("inv-init", fmt.Sprintf("loop%d:%s>=%s", g.headOrd[h], phiLabel(ab.phi), g.v(ab.init)), "auto", nil, true,
			"(>= "+g.phiInit[ab.phi]+" "+g.v(ab.init)+")", b.Instrs[0].Pos())
	}
	for i, cl := range invs {
		for k, cj := range conjuncts(cl.E) {
			g.oblige("inv-init", fmt.Sprintf("loop%d", g.headOrd[h]), cjTag(clTag(cl, i), k, cl.E), cl.Props, false, g.transBool(cj, envInit), ab0pos(b))
		}
	}
	// havoc
	if pass1 != nil {
		for _, n := range g.loopMods(h, pass1) {
			if _, ok := g.heapSort[n]; !ok {
				// heap name first seen inside the loop: it will be declared there; make sure sort is known
				continue
			}
			old := g.heap(n)
			nv := g.newVersion(n)
			g.cur[n] = nv
			if n == "alloc" {
				g.guard("(>= " + nv + " " + old + ")")
			}
		}
	}
	// phis are havoc'd: give them type facts
	for _, phi := range phis {
		if _, isT := phi.Type().(*types.Tuple); isT {
			continue
		}
		g.guard(g.typeFacts(g.v(phi), phi.Type()))
	}
	// assume invariants
	env := g.loopEnv(b, false)
	for _, ab := range autos {
		g.guard("(>= " + g.v(ab.phi) + " " + g.v(ab.init) + ")")
	}
	for _, cl := range invs {
		g.guard(g.transBool(cl.E, env))
	}
}

func ab0pos(b *ssa.BasicBlock) token.Pos {
	for _, in := range b.Instrs {
		if in.Pos().IsValid() {
			return in.Pos()
		}
	}
	return token.NoPos
}

func phiLabel(p *ssa.Phi) string {
	if p.Comment != "" {
		return p.Comment
	}
	return p.Name()
}

func clTag(cl *Clause, i int) string {
	if cl.Tag != "" {
		return cl.Tag
	}
	return fmt.Sprintf("%d", i+1)
}

func (g *Gen) backEdge(p, head *ssa.BasicBlock) {
	h := head.Index
	invs := g.loopInvariants(h)
	autos := g.autoBounds(head)
	env := g.loopEnvBack(head, p)
	idx := -1
	for i, q := range head.Preds {
		if q == p {
			idx = i
		}
	}
	for _, ab := range autos {
		val := g.v(ab.phi.Edges[idx])
		g.obligeEdge(p, head, "inv-keep", fmt.Sprintf("loop%d:%s>=%s", g.headOrd[h], phiLabel(ab.phi), g.v(ab.init)), "auto", nil, true,
			"(>= "+val+" "+g.v(ab.init)+")", ab0pos(head))
	}
	for i, cl := range invs {
		for k, cj := range conjuncts(cl.E) {
			g.obligeEdge(p, head, "inv-keep", fmt.Sprintf("loop%d", g.headOrd[h]), cjTag(clTag(cl, i), k, cl.E), cl.Props, false, g.transBool(cj, env), ab0pos(head))
		}
	}
	// decreases
	if g.ctr != nil {
		for _, cl := range g.ctr.Clauses {
			if cl.Kind == "decreases" && cl.Loop == g.headOrd[h] && cl.visible(g.prop) {
				envHead := g.loopEnv(head, false)
				envHead.heapState = g.entry[h]
				before := g.trans(cl.E, envHead)
				after := g.trans(cl.E, env)
				g.obligeEdge(p, head, "dec", fmt.Sprintf("loop%d", g.headOrd[h]), cl.Tag, cl.Props, false,
					and("(< "+after.T+" "+before.T+")", "(>= "+before.T+" 0)"), ab0pos(head))
			}
		}
	}
}

// obligeEdge creates an obligation that only concerns the edge p -> s.
func (g *Gen) obligeEdge(p, s *ssa.BasicBlock, kind, detail, tag string, props []string, safety bool, cond string, pos token.Pos) {
	c := implies(g.edgeCond(p, s), cond)
	name := g.key + "#" + kind
	if tag != "" {
		name += "[" + tag + "]"
	}
	if detail != "" {
		name += ":" + detail
	}
	g.oblSeen[name]++
	if n := g.oblSeen[name]; n > 1 {
		name = fmt.Sprintf("%s#%d", name, n)
	}
	g.curPos++
	o := &Obl{Fn: g.key, Name: name, Kind: kind, Tag: tag, Props: props, Safety: safety, blk: g.curBlk, pos: g.curPos, cond: c, SrcPos: g.P.posString(pos), g: g}
	g.obls = append(g.obls, o)
}

// ---------------------------------------------------------------------------
// query construction

func (g *Gen) declText() string {
	var sb strings.Builder
	for _, n := range g.declOrd {
		sig := g.decl[n]
		i := strings.Index(sig, ")")
		fmt.Fprintf(&sb, "(declare-fun %s %s %s)\n", n, sig[:i+1], strings.TrimSpace(sig[i+1:]))
	}
	return sb.String()
}

func (o *Obl) Query(sp *SpecPrelude, wantModel bool) string {
	g := o.g
	var body strings.Builder
	anc := g.ancestors(o.blk)
	for _, c := range g.cons {
		if c.blk == -2 {
			continue
		}
		if c.blk >= 0 {
			if !((anc[c.blk] && c.blk != o.blk) || (c.blk == o.blk && c.pos < o.pos)) {
				continue
			}
		}
		fmt.Fprintf(&body, "(assert %s)\n", c.text)
	}
	fmt.Fprintf(&body, "(assert %s)\n(assert (not %s))\n", g.at(o.blk), o.cond)
	return g.assemble(sp, body.String(), wantModel)
}

// assemble adds the relevant background theory to a query body.
func (g *Gen) assemble(sp *SpecPrelude, body string, wantModel bool) string {
	return g.assembleOpt(sp, body, wantModel, false)
}

// coverSkip: definitional axioms with array-sorted or nested quantifiers keep the solvers from answering
// `sat` on reachability (cover) queries. They are left out there: the cover check then over-approximates
// reachability with respect to these definitions only (it exists to catch contradictory assumptions).
var coverSkipBlocks = map[string]bool{"str.of": true}
var coverSkipAxioms = map[string]bool{"xorstr": true}

func (g *Gen) assembleOpt(sp *SpecPrelude, body string, wantModel bool, cover bool) string {
	// relevance closure over spec axioms
	text := body
	inc := make([]bool, len(sp.Axioms))
	for changed := true; changed; {
		changed = false
		for i, a := range sp.Axioms {
			if inc[i] {
				continue
			}
			if cover && coverSkipAxioms[a.Name] {
				continue
			}
			for _, s := range a.Syms {
				if strings.Contains(text, s) {
					inc[i] = true
					text += a.Text
					changed = true
					break
				}
			}
		}
	}
	var sb strings.Builder
	sb.WriteString("(set-option :produce-models true)\n(set-logic ALL)\n")
	sb.WriteString(preludeCore)
	for _, b := range preludeBlocks {
		if cover && coverSkipBlocks[b.trigger] {
			continue
		}
		if strings.Contains(text, b.trigger) {
			sb.WriteString(b.text)
		}
	}
	sb.WriteString(sp.Decls)
	sb.WriteString(g.declText())
	for n, f := range sp.LitFacts {
		if strings.Contains(text, n) {
			fmt.Fprintf(&sb, "(assert %s)\n", f)
		}
	}
	for _, c := range g.cons {
		if c.blk == -2 && strings.Contains(text, c.lit) {
			fmt.Fprintf(&sb, "(assert %s)\n", c.text)
		}
	}
	for i, a := range sp.Axioms {
		if inc[i] {
			sb.WriteString(a.Text)
		}
	}
	sb.WriteString(body)
	sb.WriteString("(check-sat)\n")
	if wantModel {
		sb.WriteString("(get-model)\n")
	}
	return sb.String()
}

// SpecPrelude is the translated global part of the spec files.
type SpecPrelude struct {
	Decls    string
	Axioms   []SpecAxiom
	LitFacts map[string]string
}

type SpecAxiom struct {
	Name string
	Text string
	Syms []string
}

// CoverQuery asks whether block blk is reachable under all assumptions made up to its end.
func (g *Gen) CoverQuery(sp *SpecPrelude, blk int) string {
	var body strings.Builder
	anc := g.ancestors(blk)
	for _, c := range g.cons {
		if c.blk == -2 {
			continue
		}
		if c.blk >= 0 && !anc[c.blk] {
			continue
		}
		fmt.Fprintf(&body, "(assert %s)\n", c.text)
	}
	fmt.Fprintf(&body, "(assert %s)\n", g.at(blk))
	return g.assembleOpt(sp, body.String(), false, true)
}
