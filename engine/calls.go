package main

import (
	"fmt"
	"go/constant"
	"go/token"
	"go/types"
	"os"
	"sort"
	"strings"

	"golang.org/x/tools/go/ssa"
)

// ---------------------------------------------------------------------------
// call resolution

type callee struct {
	keys     []string      // candidate contract keys, most specific first
	fn       *ssa.Function // static target if known
	closure  *ssa.MakeClosure
	sig      *types.Signature
	recvArg  ssa.Value // receiver for invoke-mode calls
	isInvoke bool
	label    string // for obligation names
	siteKey  string // enclosing function + "@" + anchor: a contract for this call site only
}

func (g *Gen) resolveCallee(c *ssa.CallCommon) callee {
	var ce callee
	ce.sig = c.Signature()
	if c.IsInvoke() {
		ce.isInvoke = true
		ce.recvArg = c.Value
		// declaring interface first, then the static type of the value
		if rs := c.Method.Type().(*types.Signature).Recv(); rs != nil {
			if _, ok := types.Unalias(rs.Type()).(*types.Named); ok {
				ce.keys = append(ce.keys, methodKey(rs.Type(), c.Method.Name()))
			}
		}
		if _, ok := types.Unalias(c.Value.Type()).(*types.Named); ok {
			k := methodKey(c.Value.Type(), c.Method.Name())
			if len(ce.keys) == 0 || ce.keys[0] != k {
				ce.keys = append([]string{k}, ce.keys...)
			}
		}
		if len(ce.keys) == 0 {
			ce.keys = []string{"iface." + c.Method.Name()}
		}
		ce.label = ce.keys[len(ce.keys)-1]
		return ce
	}
	if fn := c.StaticCallee(); fn != nil {
		ce.fn = fn
		if mc, ok := c.Value.(*ssa.MakeClosure); ok {
			ce.closure = mc
		}
		k := g.P.KeyOf[fn]
		if k == "" {
			k = funcKey(fn)
		}
		ce.keys = []string{k}
		ce.label = k
		return ce
	}
	// dynamic call of a function value
	val := c.Value
	if mc, ok := g.closures[val]; ok {
		fn := mc.Fn.(*ssa.Function)
		ce.fn, ce.closure = fn, mc
		k := g.P.KeyOf[fn]
		if k == "" {
			k = funcKey(fn)
		}
		ce.keys = []string{k}
		ce.label = k
		return ce
	}
	switch x := val.(type) {
	case *ssa.Parameter:
		ce.keys = append(ce.keys, g.key+"."+x.Name())
	case *ssa.UnOp:
		if fa, ok := x.X.(*ssa.FieldAddr); ok && x.Op == token.MUL {
			st := deref(fa.X.Type())
			ce.keys = append(ce.keys, typeKey(st)+"."+st.Underlying().(*types.Struct).Field(fa.Field).Name())
		}
	case *ssa.Field:
		st := x.X.Type()
		ce.keys = append(ce.keys, typeKey(st)+"."+st.Underlying().(*types.Struct).Field(x.Field).Name())
	}
	if _, ok := types.Unalias(val.Type()).(*types.Named); ok {
		ce.keys = append(ce.keys, typeKey(val.Type()))
	}
	if len(ce.keys) == 0 {
		ce.keys = []string{"funcvalue." + val.Name()}
	}
	ce.label = ce.keys[0]
	return ce
}

func (g *Gen) contractFor(ce callee) *Contract {
	if ce.siteKey != "" {
		if c := g.S.Contracts[ce.siteKey]; c != nil {
			return c
		}
	}
	for _, k := range ce.keys {
		if c := g.S.Contracts[k]; c != nil {
			return c
		}
	}
	return nil
}

// ---------------------------------------------------------------------------
// calls

func (g *Gen) call(in ssa.CallInstruction, val ssa.Value) {
	c := in.Common()
	if b, ok := c.Value.(*ssa.Builtin); ok {
		g.builtin(b, c, val)
		return
	}
	ce := g.resolveCallee(c)
	g.siteOrd[ce.label]++
	anchor := fmt.Sprintf("%s#%d", ce.label, g.siteOrd[ce.label])
	if os.Getenv("GOVERIF_ANCHORS") != "" && g.pass == 2 {
		fmt.Fprintf(os.Stderr, "anchor %s %s (%s)\n", g.key, anchor, g.P.posString(in.Pos()))
	}
	ce.siteKey = g.key + "@" + anchor
	if ce.fn != nil && ce.fn.String() == "(*sync.RWMutex).Lock" && len(c.Args) == 1 {
		if fa, ok := c.Args[0].(*ssa.FieldAddr); ok {
			st := deref(fa.X.Type())
			if sts, ok := st.Underlying().(*types.Struct); ok {
				for _, ff := range g.forbidFields {
					if ff.WriteLock && typeKey(st) == ff.Struct && sts.Field(fa.Field).Name() == ff.Field {
						g.oblige("writelock", g.srcOf(in.Pos(), "call"), "no-writer-of-"+ff.Field, []string{g.prop}, false, "false", in.Pos())
					}
				}
			}
		}
	}
	g.atStatements(anchor, "before", in, val, ce)
	g.applyCall(ce, c, val, in.Pos(), "true")
	g.atStatements(anchor, "after", in, val, ce)
}

// atStatements executes the anchored assertions / ghost updates of this call site.
func (g *Gen) atStatements(anchor, when string, in ssa.CallInstruction, val ssa.Value, ce callee) {
	for _, a := range g.S.Ats {
		if a.Func != g.key || a.When != when {
			continue
		}
		// `callee#*` anchors a statement at every call of callee in the function (also at calls that appear later)
		if a.Anchor != anchor && !(strings.HasSuffix(a.Anchor, "#*") && strings.HasPrefix(anchor, strings.TrimSuffix(a.Anchor, "*"))) {
			continue
		}
		g.atSeen[a] = true
		vis := propVisible(a.Props, g.prop)
		if !vis {
			continue
		}
		env := g.atEnv(in, val, ce, when == "after")
		switch a.Kind {
		case "assert":
			g.oblige("at", anchor+":"+when, a.Tag, a.Props, false, g.transBool(a.E, env), in.Pos())
		case "ghost":
			if a.LHS.Op != "sel" {
				panic(specErr(a.LHS, "ghost assignment needs x.field on the left"))
			}
			h, _, _ := g.ghostHeap(a.LHS.Name)
			if h == "" {
				panic(specErr(a.LHS, "%s is not a ghost field", a.LHS.Name))
			}
			ref := g.trans(a.LHS.Args[0], env)
			rhs := g.trans(a.E, env)
			g.assignHeap(h, "(store "+g.heap(h)+" "+ref.T+" "+rhs.T+")")
		}
	}
}

// entryAts executes ghost statements anchored at the function's entry.
func (g *Gen) entryAts() {
	for _, a := range g.S.Ats {
		if a.Func != g.key || a.Anchor != "entry" {
			continue
		}
		g.atSeen[a] = true
		vis := propVisible(a.Props, g.prop)
		if !vis || a.Kind != "ghost" {
			continue
		}
		env := g.fnEnv(nil)
		h, _, _ := g.ghostHeap(a.LHS.Name)
		if h == "" {
			panic(specErr(a.LHS, "%s is not a ghost field", a.LHS.Name))
		}
		ref := g.trans(a.LHS.Args[0], env)
		rhs := g.trans(a.E, env)
		g.assignHeap(h, "(store "+g.heap(h)+" "+ref.T+" "+rhs.T+")")
	}
}

// atEnv: parameters, locals visible at the call instruction, and (after) the call's results.
func (g *Gen) atEnv(in ssa.CallInstruction, val ssa.Value, ce callee, after bool) *Env {
	env := g.fnEnv(nil)
	base := env.lookup
	blk := in.Block()
	idx := 0
	for i, x := range blk.Instrs {
		if x == in.(ssa.Instruction) {
			idx = i
		}
	}
	env.lookup = func(name string, e *Env) (TV, bool) {
		if tv, ok := base(name, e); ok {
			return tv, true
		}
		// loop-carried variables visible in this block
		return g.resolveLocalAt(name, blk, idx, e)
	}
	env.old.lookup = env.lookup
	{
		// arg0, arg1, ...: the call's arguments (receiver first for method calls)
		vars := map[string]TV{}
		for k, v := range env.vars {
			vars[k] = v
		}
		c := in.Common()
		n := 0
		if c.IsInvoke() {
			vars["arg0"] = TV{g.v(c.Value), SInt, c.Value.Type()}
			n = 1
		}
		for _, a := range c.Args {
			vars[fmt.Sprintf("arg%d", n)] = TV{g.v(a), sortOf(a.Type()), a.Type()}
			n++
		}
		env.vars = vars
		env.old.vars = vars
	}
	if after && val != nil {
		rs := g.resultTerms(val, ce.sig)
		vars := map[string]TV{}
		for k, v := range env.vars {
			vars[k] = v
		}
		for i, r := range rs {
			vars[fmt.Sprintf("r%d", i)] = r
			if len(rs) == 1 {
				vars["result"] = r
			}
		}
		env.vars = vars
		env.old.vars = vars
	}
	return env
}

func (g *Gen) resultTerms(val ssa.Value, sig *types.Signature) []TV {
	var out []TV
	res := sig.Results()
	switch res.Len() {
	case 0:
	case 1:
		t := res.At(0).Type()
		if val != nil {
			out = append(out, TV{g.v(val), sortOf(t), t})
		} else {
			out = append(out, TV{g.fresh("res", sortOf(t)), sortOf(t), t})
		}
	default:
		for i := 0; i < res.Len(); i++ {
			t := res.At(i).Type()
			if val != nil {
				out = append(out, TV{g.tupleComp(val, i), sortOf(t), t})
			} else {
				out = append(out, TV{g.fresh("res", sortOf(t)), sortOf(t), t})
			}
		}
	}
	return out
}

func (g *Gen) applyCall(ce callee, c *ssa.CallCommon, val ssa.Value, pos token.Pos, guard string) {
	pre := copyState(g.cur)
	g.applyCallInner(ce, c, val, pos, guard)
	g.keepPrivateCells(pre, ce, c)
}

// privateCells: locals of fn whose address never leaves fn except as a binding of closures that are only
// called or deferred in fn itself. No other callee can write such a variable, whatever its (type-based) frame says.
func (g *Gen) privateCells() map[*ssa.Alloc][]*ssa.MakeClosure {
	if g.privCells != nil {
		return g.privCells
	}
	g.privCells = map[*ssa.Alloc][]*ssa.MakeClosure{}
	for _, b := range g.fn.Blocks {
		for _, in := range b.Instrs {
			a, ok := in.(*ssa.Alloc)
			if !ok || isStructT(deref(a.Type())) || isArrayT(deref(a.Type())) {
				continue
			}
			private := true
			var binds []*ssa.MakeClosure
			for _, ref := range *a.Referrers() {
				switch r := ref.(type) {
				case *ssa.Store:
					if r.Val == a {
						private = false
					}
				case *ssa.UnOp, *ssa.DebugRef:
				case *ssa.MakeClosure:
					for _, u := range *r.Referrers() {
						switch cu := u.(type) {
						case *ssa.Defer:
							if cu.Call.Value != r {
								private = false
							}
						case *ssa.Call:
							if cu.Call.Value != r {
								private = false
							}
						case *ssa.DebugRef:
						default:
							private = false
						}
					}
					binds = append(binds, r)
				default:
					private = false
				}
			}
			if private {
				g.privCells[a] = binds
			}
		}
	}
	return g.privCells
}

func (g *Gen) keepPrivateCells(pre map[string]string, ce callee, c *ssa.CallCommon) {
	for a, binds := range g.privateCells() {
		own := false
		for _, mc := range binds {
			if ce.closure == mc || c.Value == mc {
				own = true
			}
		}
		if own {
			continue
		}
		h := g.cellHeap(deref(a.Type()))
		before, after := g.heapIn(pre, h), g.heap(h)
		if before == after {
			continue
		}
		g.guard(eq("(select "+after+" "+g.v(a)+")", "(select "+before+" "+g.v(a)+")"))
	}
}

func (g *Gen) applyCallInner(ce callee, c *ssa.CallCommon, val ssa.Value, pos token.Pos, guard string) {
	// nil checks on the callee itself
	if ce.isInvoke {
		g.nilCheck(g.v(c.Value), c.Value, pos, "call")
	} else if ce.fn == nil {
		txt := g.srcOf(pos, "call")
		g.oblige("nilfunc", txt, "", nil, true, implies(guard, not(eq(g.v(c.Value), "0"))), pos)
	}
	// argument terms: receiver first for methods
	var args []TV
	if ce.isInvoke {
		args = append(args, TV{g.v(c.Value), SInt, c.Value.Type()})
	}
	for _, a := range c.Args {
		args = append(args, TV{g.v(a), sortOf(a.Type()), a.Type()})
	}
	results := g.resultTerms(val, ce.sig)

	// native models
	if ce.fn != nil && g.nativeModel(ce, c, results) {
		return
	}

	g.detFact(ce, args, results, guard)
	ctr := g.contractFor(ce)
	if ctr != nil && ctr.Assumed && ce.isInvoke {
		// an assumed interface-level contract none of whose clauses belongs to this run says nothing here:
		// it must not switch off the devirtualisation to verified in-repo implementations
		vis := false
		for _, cl := range ctr.Clauses {
			if cl.visible(g.prop) {
				vis = true
			}
		}
		if !vis && !ctr.Pure {
			ctr = nil
		}
	}
	g.recursionObligation(ce, c, args, pos, guard)
	pre := copyState(g.cur)
	if ctr != nil {
		g.usedCtr[ctr.Key] = true
		g.applyContract(ctr, ce, c, args, results, pre, pos, guard)
	} else {
		if ce.fn != nil && inRepoFn(ce.fn) {
			// the callee's body assumes its pointer receiver is not nil: that is an obligation here,
			// whether or not the callee has a contract
			if ce.fn.Signature.Recv() != nil && len(c.Args) > 0 && !c.IsInvoke() {
				if _, isPtr := ce.fn.Signature.Recv().Type().Underlying().(*types.Pointer); isPtr {
					g.nilCheck(g.objRef(c.Args[0]), c.Args[0], pos, "call")
				}
			}
			if g.canInline(ce.fn) {
				g.inlineCall(ce.fn, args, ce.closure, results, guard)
				return
			}
			// inferred frame
			g.inferred[ce.label] = true
			g.applyInferredFrame(ce.fn, args)
		} else if ce.isInvoke || ce.fn == nil {
			// unknown target: in-repo implementations may be reached
			otherwise := guard
			if ce.isInvoke && g.frames.fb != nil {
				// devirtualisation by dynamic type: an in-repo implementation with a verified
				// contract is represented by that contract when the receiver has its type
				recv := g.v(c.Value)
				var tests []string
				for _, m := range g.frames.fb.implsOf(c) {
					k := g.P.KeyOf[m]
					mc := g.S.Contracts[k]
					if k == "" || mc == nil || mc.Assumed {
						continue
					}
					if _, isPtr := m.Signature.Recv().Type().Underlying().(*types.Pointer); !isPtr {
						continue
					}
					test := eq("(dyntype "+recv+")", g.typeID(m.Signature.Recv().Type()))
					gi := and(guard, test)
					cei := callee{keys: []string{k}, fn: m, sig: m.Signature, label: k}
					prei := copyState(g.cur)
					g.usedCtr[k] = true
					g.applyContract(mc, cei, c, args, results, prei, pos, gi)
					g.mergeGuarded(prei, gi)
					tests = append(tests, test)
				}
				if len(tests) > 0 {
					otherwise = and(guard, not(or(tests...)))
				}
			}
			g.uncontr[ce.label] = true
			pree := copyState(g.cur)
			for _, n := range g.frames.dynamicMods(g.P, ce, c) {
				g.ensureHeapSortByName(n)
				if _, ok := g.heapSort[n]; ok {
					g.havocHeap(n)
				}
			}
			if otherwise != guard {
				g.mergeGuarded(pree, otherwise)
			}
		} else {
			g.uncontr[ce.label] = true
		}
		g.havocAlloc()
		for _, r := range results {
			g.guard(g.typeFacts(r.T, r.Type))
		}
	}
	g.mergeGuarded(pre, guard)
}

func inRepoFn(fn *ssa.Function) bool {
	if fn.Pkg != nil {
		return inRepo(fn.Pkg.Pkg)
	}
	if fn.Parent() != nil {
		return inRepoFn(fn.Parent())
	}
	if fn.Object() != nil {
		return inRepo(fn.Object().Pkg())
	}
	return false
}

// detFact: an in-repo callee that stores nothing, allocates nothing and calls nothing outside the
// repository returns a function of its arguments and of the heaps it reads: two calls in the same
// state agree (no contract needed to know that hasMixed() answers the same twice).
func (g *Gen) detFact(ce callee, args []TV, results []TV, guard string) {
	if ce.fn == nil || !inRepoFn(ce.fn) || g.frames == nil || len(results) != 1 || len(ce.fn.Params) != len(args) {
		return
	}
	reads, ok := g.frames.deterministic(ce.fn)
	if !ok {
		return
	}
	key := g.P.KeyOf[ce.fn]
	if key == "" {
		return
	}
	var sig, terms []string
	for _, a := range args {
		sig = append(sig, string(a.S))
		terms = append(terms, a.T)
	}
	for _, n := range reads {
		g.ensureHeapSortByName(n)
		hs, ok := g.heapSort[n]
		if !ok {
			return
		}
		sig = append(sig, hs)
		terms = append(terms, g.heap(n))
	}
	fn := sym("det." + key)
	g.declare(fn, "("+strings.Join(sig, " ")+") "+string(results[0].S))
	t := fn
	if len(terms) > 0 {
		t = "(" + fn + " " + strings.Join(terms, " ") + ")"
	}
	g.guard(implies(guard, eq(results[0].T, t)))
}

// applyInferredFrame havocs what an in-repo callee without a declared frame may write, as precisely
// as the frame analysis knows: a whole heap, the entries of the objects passed as parameters, and/or
// the entries of objects allocated during the call.
func (g *Gen) applyInferredFrame(fn *ssa.Function, args []TV) {
	locs := g.frames.locsOf(fn)
	var names []string
	for n := range locs {
		names = append(names, n)
	}
	sort.Strings(names)
	allocPre := g.heap("alloc")
	for _, n := range names {
		ls := locs[n]
		g.ensureHeapSortByName(n)
		hs, ok := g.heapSort[n]
		if !ok {
			continue
		}
		var ps []int
		for i := range ls.params {
			ps = append(ps, i)
		}
		sort.Ints(ps)
		precise := !ls.all && n != "alloc" && strings.HasPrefix(hs, "(Array Int ") && len(fn.Params) == len(args)
		for _, i := range ps {
			if i >= len(args) || args[i].S != SInt {
				precise = false
			}
		}
		if !precise {
			g.havocHeap(n)
			continue
		}
		old := g.heap(n)
		if ls.fresh {
			nv := g.havocHeap(n)
			cond := []string{"(<= (atime r) " + allocPre + ")"}
			for _, i := range ps {
				cond = append(cond, not(eq("r", args[i].T)))
			}
			g.guard("(forall ((r Int)) (! (=> " + and(cond...) + " (= (select " + nv + " r) (select " + old + " r))) :pattern ((select " + nv + " r))))")
			continue
		}
		inner := Sort(hs[len("(Array Int ") : len(hs)-1])
		term := old
		for _, i := range ps {
			term = "(store " + term + " " + args[i].T + " " + g.fresh("frame."+n, inner) + ")"
		}
		g.assignHeap(n, term)
	}
}

func (g *Gen) havocAlloc() {
	old := g.heap("alloc")
	nv := g.newVersion("alloc")
	g.cur["alloc"] = nv
	g.recordMod("alloc")
	g.guard("(>= " + nv + " " + old + ")")
}

// mergeGuarded makes the heap effects of a (deferred) call conditional on guard.
func (g *Gen) mergeGuarded(pre map[string]string, guard string) {
	if guard == "true" {
		return
	}
	var names []string
	for n := range g.cur {
		names = append(names, n)
	}
	sort.Strings(names)
	for _, n := range names {
		after := g.cur[n]
		before := g.heapIn(pre, n)
		if after == before {
			continue
		}
		v := g.newVersion(n)
		g.guard(eq(v, "(ite "+guard+" "+after+" "+before+")"))
		g.cur[n] = v
	}
}

func (g *Gen) ensureHeapSortByName(n string) {
	if _, ok := g.heapSort[n]; ok {
		return
	}
	if s, ok := g.frames.sorts[n]; ok {
		g.heapSort[n] = s
	}
}

// calleeEnv binds the contract's parameter names to the argument terms.
func (g *Gen) calleeEnv(ctr *Contract, ce callee, c *ssa.CallCommon, args []TV, results []TV, pre map[string]string) (*Env, *Env) {
	vars := map[string]TV{}
	var names []string
	var ptypes []types.Type
	var hdr []string
	if ctr.Recv != "" {
		hdr = append(hdr, ctr.Recv)
	}
	hdr = append(hdr, ctr.Params...)
	if ce.fn != nil && len(ce.fn.Params) == len(args) {
		for _, p := range ce.fn.Params {
			names = append(names, p.Name())
			ptypes = append(ptypes, p.Type())
		}
		if len(hdr) == len(args) {
			names = hdr // the contract's own names win
		} else if len(hdr) == len(args)-1 && ce.fn.Signature.Recv() != nil {
			names = append([]string{names[0]}, hdr...)
		} else if len(hdr) > 0 {
			panic(fmt.Errorf("%s: contract %s names %d parameters (receiver included), function has %d", ctr.Pos, ctr.Key, len(hdr), len(args)))
		}
	} else {
		// interface methods / function values: names from the contract header
		names = hdr
		if len(hdr) == len(args)-1 && (ce.isInvoke) {
			names = append([]string{"this"}, hdr...)
		}
		if ce.isInvoke {
			ptypes = append(ptypes, c.Value.Type())
		}
		ps := ce.sig.Params()
		for i := 0; i < ps.Len(); i++ {
			ptypes = append(ptypes, ps.At(i).Type())
		}
	}
	var calleeAlias map[string]string
	if ce.fn != nil && g.aliasFn != nil && inRepoFn(ce.fn) {
		calleeAlias = g.aliasFn(ce.fn)
	}
	for i, a := range args {
		if i < len(names) {
			tv := a
			if i < len(ptypes) && ptypes[i] != nil {
				tv.Type = ptypes[i]
			}
			vars[names[i]] = tv
			// the callee's contract may still use the name this parameter had when it was written
			for o, n := range calleeAlias {
				if n == names[i] {
					if _, taken := vars[o]; !taken {
						vars[o] = tv
					}
				}
			}
		}
	}
	if len(names) < len(args) && len(hdr) > 0 {
		panic(fmt.Errorf("%s: contract %s names %d parameters, call has %d", ctr.Pos, ctr.Key, len(names), len(args)))
	}
	var pk *types.Package
	if ce.fn != nil && ce.fn.Pkg != nil {
		pk = ce.fn.Pkg.Pkg
	} else if ce.fn != nil && ce.fn.Parent() != nil && ce.fn.Parent().Pkg != nil {
		pk = ce.fn.Parent().Pkg.Pkg
	} else if ce.fn != nil && ce.fn.Object() != nil {
		pk = ce.fn.Object().Pkg()
	} else if g.fn.Pkg != nil {
		pk = g.fn.Pkg.Pkg
	}
	lookup := func(name string, e *Env) (TV, bool) {
		// free variables of a closure: bound by reference
		if ce.closure != nil {
			fn := ce.closure.Fn.(*ssa.Function)
			for i, fv := range fn.FreeVars {
				if fv.Name() == name {
					return g.derefVar(ce.closure.Bindings[i], e), true
				}
			}
		}
		return TV{}, false
	}
	preEnv := &Env{g: g, vars: vars, heapState: pre, pkg: pk, lookup: lookup}
	preEnv.old = preEnv
	postVars := map[string]TV{}
	for k, v := range vars {
		postVars[k] = v
	}
	res := ce.sig.Results()
	for i, r := range results {
		if i < res.Len() {
			if n := res.At(i).Name(); n != "" && n != "_" {
				postVars[n] = r
			}
		}
		if i < len(ctr.Results) {
			postVars[ctr.Results[i]] = r
		}
		postVars[fmt.Sprintf("r%d", i)] = r
		if len(results) == 1 {
			postVars["result"] = r
		}
	}
	postEnv := &Env{g: g, vars: postVars, pkg: pk, lookup: lookup}
	postEnv.old = &Env{g: g, vars: postVars, heapState: pre, pkg: pk, lookup: lookup}
	return preEnv, postEnv
}

func (g *Gen) applyContract(ctr *Contract, ce callee, c *ssa.CallCommon, args, results []TV, pre map[string]string, pos token.Pos, guard string) {
	preEnv, postEnv := g.calleeEnv(ctr, ce, c, args, results, pre)
	g.callOrd[ctr.Key]++
	ord := g.callOrd[ctr.Key]
	// receiver of a method with pointer receiver must not be nil
	// (in-repo callees only: what a function outside the repository does with a nil receiver is part of
	// its assumed contract - a `requires` there - not of this generic check)
	if ce.fn != nil && inRepoFn(ce.fn) && ce.fn.Signature.Recv() != nil && len(c.Args) > 0 && !c.IsInvoke() {
		if _, isPtr := ce.fn.Signature.Recv().Type().Underlying().(*types.Pointer); isPtr {
			g.nilCheck(g.objRef(c.Args[0]), c.Args[0], pos, "call")
		}
	}
	for i, cl := range ctr.Clauses {
		if cl.Kind != "requires" || !cl.visible(g.prop) {
			continue
		}
		for k, cj := range conjuncts(cl.E) {
			cond := g.transBool(cj, preEnv)
			g.oblige("pre", fmt.Sprintf("%s@%d", ctr.Key, ord), cjTag(clTag(cl, i), k, cl.E), cl.Props, false, implies(guard, cond), pos)
		}
	}
	// modifies targets may name results (fresh objects); they are resolved in the pre-state
	modEnv := &Env{g: g, vars: postEnv.vars, heapState: pre, pkg: preEnv.pkg, lookup: preEnv.lookup}
	modEnv.old = modEnv
	// modifies: declared frame, or (in-repo callee without a modifies clause) the inferred frame
	if ctr.declaresFrame(g.prop) || ctr.Assumed || ce.fn == nil || !inRepoFn(ce.fn) {
		for _, cl := range ctr.Clauses {
			if cl.Kind != "modifies" || !cl.visible(g.prop) {
				continue
			}
			for _, m := range cl.Mods {
				g.havocLoc(m, modEnv)
			}
		}
	} else {
		g.inferred[ce.label] = true
		g.applyInferredFrame(ce.fn, args)
	}
	g.havocAlloc()
	for _, r := range results {
		g.guard(g.typeFacts(r.T, r.Type))
	}
	for _, cl := range ctr.Clauses {
		if cl.Kind != "ensures" || !cl.visible(g.prop) {
			continue
		}
		if cl.Free {
			g.freeUsed[ctr.Key+": "+cl.Src] = true
		}
		g.guard(implies(guard, g.transBool(cl.E, postEnv)))
	}
}

// modLoc is a resolved modifies target.
type modLoc struct {
	heap  string
	ref   string // "" = whole heap
	heap2 string // second heap (maps: has + val)
}

func (g *Gen) resolveMod(m *Expr, env *Env) []modLoc {
	switch m.Op {
	case "sel":
		// any.f : whole field heap
		if m.Args[0].Op == "id" && m.Args[0].Name == "any" {
			if h, _, _ := g.ghostHeap(m.Name); h != "" {
				return []modLoc{{heap: h}}
			}
			panic(specErr(m, "any.%s: not a ghost field (use Type.field for real fields)", m.Name))
		}
		b := g.trans(m.Args[0], env)
		if b.Type != nil {
			st := deref(b.Type)
			if s, ok := st.Underlying().(*types.Struct); ok {
				for i := 0; i < s.NumFields(); i++ {
					if f := s.Field(i); f.Name() == m.Name {
						if isStructT(f.Type()) || isArrayT(f.Type()) {
							panic(specErr(m, "modifies of embedded struct/array: name its fields"))
						}
						return []modLoc{{heap: g.fieldHeap(st, f), ref: b.T}}
					}
				}
			}
		}
		if h, _, _ := g.ghostHeap(m.Name); h != "" {
			return []modLoc{{heap: h, ref: b.T}}
		}
		panic(specErr(m, "modifies: no field %s", m.Name))
	case "call":
		switch m.Name {
		case "elems":
			// elems(s): contents of the backing array of slice s
			a := g.trans(m.Args[0], env)
			var et types.Type = types.Typ[types.Uint8]
			if sl, ok := typeUnder(a.Type).(*types.Slice); ok {
				et = sl.Elem()
			}
			if a.S == SSlc {
				return []modLoc{{heap: g.arrHeap(et), ref: "(sl_arr " + a.T + ")"}}
			}
			if p, ok := typeUnder(a.Type).(*types.Pointer); ok {
				if at, ok := p.Elem().Underlying().(*types.Array); ok {
					return []modLoc{{heap: g.arrHeap(at.Elem()), ref: a.T}}
				}
			}
			panic(specErr(m, "elems() needs a slice or array pointer"))
		case "entries":
			a := g.trans(m.Args[0], env)
			mt, ok := typeUnder(a.Type).(*types.Map)
			if !ok {
				panic(specErr(m, "entries() needs a map"))
			}
			has, val := g.mapHeaps(mt)
			return []modLoc{{heap: has, ref: a.T}, {heap: val, ref: a.T}}
		case "cell":
			// cell(p): the variable p points to
			a := g.trans(m.Args[0], env)
			return []modLoc{{heap: g.cellHeap(deref(a.Type)), ref: a.T}}
		case "heap":
			// heap("H.smtp.Client.ext") / heap("A.byte"): a whole heap by name
			n := m.Args[0].Str
			g.ensureHeapSortByName(n)
			if _, ok := g.heapSort[n]; !ok {
				return nil
			}
			return []modLoc{{heap: n}}
		case "field":
			// field("smtp.Client", "ext"): whole field heap
			t := g.P.lookupType(m.Args[0].Str)
			if t == nil {
				panic(specErr(m, "unknown type"))
			}
			s := t.Underlying().(*types.Struct)
			for i := 0; i < s.NumFields(); i++ {
				if s.Field(i).Name() == m.Args[1].Str {
					return []modLoc{{heap: g.fieldHeap(t, s.Field(i))}}
				}
			}
			panic(specErr(m, "no such field"))
		}
	case "id":
		if h, _, _ := g.ghostHeap(m.Name); h != "" {
			return []modLoc{{heap: h}}
		}
	}
	panic(specErr(m, "unsupported modifies target"))
}

// modGuard: the objects a modifies target is reached through must exist - `a.b.f` names nothing when
// a or a.b is nil (the fields of the nil object are not constrained in this encoding, so without the
// guard `nil.b` would be an arbitrary object).
func (g *Gen) modGuard(e *Expr, env *Env) []string {
	var gs []string
	var base *Expr
	switch {
	case e.Op == "sel" && !(e.Args[0].Op == "id" && (e.Args[0].Name == "any" || e.Args[0].Name == "world")):
		base = e.Args[0]
	case e.Op == "call" && (e.Name == "as" || e.Name == "elems" || e.Name == "entries" || e.Name == "cell") && len(e.Args) > 0:
		if e.Name == "as" {
			return g.modGuard(e.Args[0], env)
		}
		base = e.Args[0]
	}
	if base == nil {
		return nil
	}
	gs = g.modGuard(base, env)
	func() {
		defer func() {
			if r := recover(); r != nil {
				if _, ok := r.(error); !ok {
					panic(r)
				}
			}
		}()
		if b := g.trans(base, env); b.S == SInt {
			gs = append(gs, not(eq(b.T, "0")))
		}
	}()
	return gs
}

func (g *Gen) havocLoc(m *Expr, env *Env) {
	guards := g.modGuard(m, env)
	for _, l := range g.resolveMod(m, env) {
		if l.ref == "" {
			g.havocHeap(l.heap)
			continue
		}
		old := g.heap(l.heap)
		srt := g.heapSort[l.heap]
		// element sort of the heap array
		inner := strings.TrimSuffix(strings.TrimPrefix(srt, "(Array Int "), ")")
		fv := g.freshSig("havoc", "() "+inner)
		if len(guards) > 0 {
			fv = "(ite " + and(guards...) + " " + fv + " (select " + old + " " + l.ref + "))"
		}
		g.assignHeap(l.heap, "(store "+old+" "+l.ref+" "+fv+")")
	}
}

// ---------------------------------------------------------------------------
// return: postconditions and frame

func (g *Gen) ret(r *ssa.Return) {
	g.retOrd++
	if g.ctr == nil {
		return
	}
	env := g.fnEnv(r)
	detail := fmt.Sprintf("return@%s", g.retLabel(r))
	for i, cl := range g.ctr.Clauses {
		if cl.Kind != "ensures" || !cl.visible(g.prop) || cl.Free {
			continue
		}
		for k, cj := range conjuncts(cl.E) {
			g.oblige("post", detail, cjTag(clTag(cl, i), k, cl.E), cl.Props, false, g.transBool(cj, env), r.Pos())
		}
	}
	g.frameObligations(r, detail)
	// restores: the named ghost heaps are back to their entry value
	for _, cl := range g.ctr.Clauses {
		if cl.Kind != "restores" || !cl.visible(g.prop) {
			continue
		}
		for _, n := range cl.Names {
			h, _, _ := g.ghostHeap(n)
			if h == "" {
				panic(fmt.Errorf("%s: restores: %s is not a ghost field", cl.Pos, n))
			}
			g.oblige("restore", detail, n, cl.Props, false, eq(g.heap(h), g.heapIn(g.entry[-1], h)), r.Pos())
		}
	}
}

// retLabel names a return site by the normalised source text of the return
// statement's enclosing condition-free identity: ordinal + source line text.
func (g *Gen) retLabel(r *ssa.Return) string {
	return fmt.Sprintf("%d", g.retOrd)
}

func (c *Contract) declaresFrame(prop string) bool {
	if c.Pure {
		return true
	}
	for _, cl := range c.Clauses {
		if cl.Kind == "modifies" && cl.visible(prop) {
			return true
		}
	}
	return false
}

func (g *Gen) frameObligations(r *ssa.Return, detail string) {
	if g.ctr == nil || !g.ctr.declaresFrame(g.prop) {
		return
	}
	entry := g.entry[-1]
	preEnv := &Env{g: g, vars: g.baseEnv().vars, heapState: entry, pkg: g.baseEnv().pkg}
	preEnv.lookup = g.fnEnv(nil).lookup
	preEnv.old = preEnv
	declared := map[string][]string{} // heap -> refs ("" = whole)
	for _, cl := range g.ctr.Clauses {
		if cl.Kind != "modifies" || !cl.visible(g.prop) {
			continue
		}
		for _, m := range cl.Mods {
			for _, l := range g.resolveMod(m, preEnv) {
				declared[l.heap] = append(declared[l.heap], l.ref)
			}
		}
	}
	var names []string
	for n := range g.allMods {
		names = append(names, n)
	}
	sort.Strings(names)
	alloc0 := g.heapIn(entry, "alloc")
	for _, n := range names {
		if n == "alloc" {
			continue
		}
		before := g.heapIn(entry, n)
		after := g.heap(n)
		if before == after {
			continue
		}
		whole := false
		var excl []string
		for _, ref := range declared[n] {
			if ref == "" {
				whole = true
			}
			excl = append(excl, not(eq("r", ref)))
		}
		if whole {
			continue
		}
		cond := "(forall ((r Int)) (! (=> " + and(append([]string{"(<= (atime r) " + alloc0 + ")"}, excl...)...) +
			" (= (select " + after + " r) (select " + before + " r))) :pattern ((select " + after + " r))))"
		g.oblige("frame", detail, n, nil, false, cond, r.Pos())
	}
}

// ---------------------------------------------------------------------------
// defers

func (g *Gen) runDefers() {
	for i := len(g.defers) - 1; i >= 0; i-- {
		d := g.defers[i]
		blk := d.Block().Index
		// only defers whose block can precede the current block matter
		if !g.ancestors(g.curBlk)[blk] {
			continue
		}
		guard := g.at(blk)
		if blk == g.curBlk || d.Block().Dominates(g.fn.Blocks[g.curBlk]) {
			guard = "true"
		}
		inLoop := false
		for _, body := range g.loopBody {
			if body[blk] {
				inLoop = true
			}
		}
		c := d.Common()
		if b, ok := c.Value.(*ssa.Builtin); ok {
			g.builtin(b, c, nil)
			continue
		}
		ce := g.resolveCallee(c)
		if inLoop {
			// executed zero or more times: havoc what it may modify
			ctr := g.contractFor(ce)
			if ctr != nil {
				g.warn("defer inside loop: %s treated as havoc of its modifies", ce.label)
			}
			guard = g.fresh("deferred", SBool)
		}
		g.applyCall(ce, c, nil, d.Pos(), guard)
	}
}

// ---------------------------------------------------------------------------
// builtins

func (g *Gen) builtin(b *ssa.Builtin, c *ssa.CallCommon, val ssa.Value) {
	switch b.Name() {
	case "len":
		r := g.v(val)
		x := c.Args[0]
		switch xt := x.Type().Underlying().(type) {
		case *types.Basic:
			g.guard(eq(r, "(slen "+g.v(x)+")"))
		case *types.Slice:
			g.guard(eq(r, "(sl_len "+g.v(x)+")"))
		case *types.Map:
			g.guard(eq(r, "(maplen "+g.v(x)+")"))
			g.guard("(>= " + r + " 0)")
			g.guard(implies(eq(g.v(x), "0"), eq(r, "0")))
		case *types.Pointer:
			g.guard(eq(r, fmt.Sprint(xt.Elem().Underlying().(*types.Array).Len())))
		case *types.Array:
			g.guard(eq(r, fmt.Sprint(xt.Len())))
		default:
			g.guard("(>= " + r + " 0)")
		}
	case "cap":
		r := g.v(val)
		x := c.Args[0]
		switch xt := x.Type().Underlying().(type) {
		case *types.Slice:
			g.guard(eq(r, "(sl_cap "+g.v(x)+")"))
		case *types.Pointer:
			g.guard(eq(r, fmt.Sprint(xt.Elem().Underlying().(*types.Array).Len())))
		default:
			g.guard("(>= " + r + " 0)")
		}
	case "append":
		g.appendBuiltin(c, val)
	case "copy":
		g.copyBuiltin(c, val)
	case "delete":
		m := g.v(c.Args[0])
		k := g.v(c.Args[1])
		mt := c.Args[0].Type().Underlying().(*types.Map)
		has, _ := g.mapHeaps(mt)
		hh := g.heap(has)
		g.assignHeap(has, "(ite (= "+m+" 0) "+hh+" (store "+hh+" "+m+" (store (select "+hh+" "+m+") "+k+" false)))")
	case "min", "max":
		r := g.v(val)
		if len(c.Args) == 2 && isInteger(c.Args[0].Type()) {
			a, bb := g.v(c.Args[0]), g.v(c.Args[1])
			op := "<="
			if b.Name() == "max" {
				op = ">="
			}
			g.guard(eq(r, "(ite ("+op+" "+a+" "+bb+") "+a+" "+bb+")"))
		}
	case "print", "println":
	case "recover":
		if val != nil {
			g.guard(eq(g.v(val), "0"))
		}
	case "clear":
		g.outOfSub = append(g.outOfSub, "clear builtin")
	default:
		g.outOfSub = append(g.outOfSub, "builtin "+b.Name())
	}
}

func (g *Gen) appendBuiltin(c *ssa.CallCommon, val ssa.Value) {
	r := g.v(val)
	s := g.v(c.Args[0])
	et := val.Type().Underlying().(*types.Slice).Elem()
	es := string(sortOf(et))
	ahName := g.arrHeap(et)
	ah := g.heap(ahName)
	al := g.heap("alloc")
	var elen string
	var eat func(i string) string
	e := c.Args[1]
	if isStringT(e.Type()) {
		ev := g.v(e)
		elen = "(slen " + ev + ")"
		eat = func(i string) string { return "(sat " + ev + " " + i + ")" }
	} else {
		ev := g.v(e)
		elen = "(sl_len " + ev + ")"
		eat = func(i string) string {
			return "(select (select " + ah + " (sl_arr " + ev + ")) (+ (sl_off " + ev + ") " + i + "))"
		}
	}
	arr := "(sl_arr " + r + ")"
	inplace := and(eq(arr, "(sl_arr "+s+")"), eq("(sl_off "+r+")", "(sl_off "+s+")"), "(<= (+ (sl_len "+s+") "+elen+") (sl_cap "+s+"))", not(eq("(sl_arr "+s+")", "0")))
	freshArr := and("(> (atime "+arr+") "+al+")", eq("(sl_off "+r+")", "0"))
	g.guard(and(not(eq(arr, "0")), eq("(sl_len "+r+")", "(+ (sl_len "+s+") "+elen+")"), "(<= (sl_len "+r+") (sl_cap "+r+"))", "(<= 0 (sl_off "+r+"))", or(inplace, freshArr)))
	g.guard(implies(inplace, eq("(sl_cap "+r+")", "(sl_cap "+s+")")))
	content := g.freshSig("appcontent", "() (Array Int "+es+")")
	off := "(sl_off " + r + ")"
	g.guard("(forall ((j Int)) (! (=> (and (<= " + off + " j) (< j (+ " + off + " (sl_len " + s + ")))) (= (select " + content + " j) (select (select " + ah + " (sl_arr " + s + ")) (+ (sl_off " + s + ") (- j " + off + "))))) :pattern ((select " + content + " j))))")
	if vals, ok := varargValues(e); ok && !isStringT(e.Type()) && len(vals) <= 8 {
		// append(s, x1, ..., xn) with the elements known: no quantifier needed for the new part
		for k, xv := range vals {
			g.guard(eq(fmt.Sprintf("(select %s (+ %s (sl_len %s) %d))", content, off, s, k), g.v(xv)))
		}
	} else {
		g.guard("(forall ((j Int)) (! (=> (and (<= (+ " + off + " (sl_len " + s + ")) j) (< j (+ " + off + " (sl_len " + s + ") " + elen + "))) (= (select " + content + " j) " + eat("(- j (+ "+off+" (sl_len "+s+")))") + ")) :pattern ((select " + content + " j))))")
	}
	g.guard(implies(inplace, "(forall ((j Int)) (! (=> (or (< j (+ (sl_off "+s+") (sl_len "+s+"))) (>= j (+ (sl_off "+s+") (sl_len "+r+")))) (= (select "+content+" j) (select (select "+ah+" (sl_arr "+s+")) j))) :pattern ((select "+content+" j))))"))
	g.assignHeap(ahName, "(store "+ah+" "+arr+" "+content+")")
	g.assignHeap("alloc", "(ite (> (atime "+arr+") "+al+") (atime "+arr+") "+al+")")
}

func (g *Gen) copyBuiltin(c *ssa.CallCommon, val ssa.Value) {
	dst := g.v(c.Args[0])
	et := c.Args[0].Type().Underlying().(*types.Slice).Elem()
	es := string(sortOf(et))
	ahName := g.arrHeap(et)
	ah := g.heap(ahName)
	var slen string
	var sat func(i string) string
	src := c.Args[1]
	sv := g.v(src)
	if isStringT(src.Type()) {
		slen = "(slen " + sv + ")"
		sat = func(i string) string { return "(sat " + sv + " " + i + ")" }
	} else {
		slen = "(sl_len " + sv + ")"
		sat = func(i string) string {
			return "(select (select " + ah + " (sl_arr " + sv + ")) (+ (sl_off " + sv + ") " + i + "))"
		}
	}
	n := g.fresh("copied", SInt)
	if val != nil {
		g.guard(eq(g.v(val), n))
	}
	g.guard(eq(n, "(ite (<= (sl_len "+dst+") "+slen+") (sl_len "+dst+") "+slen+")"))
	content := g.freshSig("copycontent", "() (Array Int "+es+")")
	doff := "(sl_off " + dst + ")"
	g.guard("(forall ((j Int)) (! (=> (and (<= " + doff + " j) (< j (+ " + doff + " " + n + "))) (= (select " + content + " j) " + sat("(- j "+doff+")") + ")) :pattern ((select " + content + " j))))")
	g.guard("(forall ((j Int)) (! (=> (or (< j " + doff + ") (>= j (+ " + doff + " " + n + "))) (= (select " + content + " j) (select (select " + ah + " (sl_arr " + dst + ")) j))) :pattern ((select " + content + " j))))")
	g.assignHeap(ahName, "(ite (= "+n+" 0) "+ah+" (store "+ah+" (sl_arr "+dst+") "+content+"))")
}

// ---------------------------------------------------------------------------
// native models: fmt.Sprintf / fmt.Errorf with a constant format

func (g *Gen) nativeModel(ce callee, c *ssa.CallCommon, results []TV) bool {
	name := ce.fn.String()
	switch name {
	case "fmt.Sprintf", "fmt.Errorf":
	case "errors.As":
		// errors.As(err, &target): may store into *target; when it reports true the target holds an error
		if len(c.Args) == 2 {
			if mi, ok := c.Args[1].(*ssa.MakeInterface); ok {
				if pt, ok := mi.X.Type().Underlying().(*types.Pointer); ok {
					elem := pt.Elem()
					if !isStructT(elem) && !isArrayT(elem) {
						h := g.cellHeap(elem)
						nv := g.fresh("as.target", sortOf(elem))
						before := "(select " + g.heap(h) + " " + g.v(mi.X) + ")"
						g.assignHeap(h, "(store "+g.heap(h)+" "+g.v(mi.X)+" "+nv+")")
						if sortOf(elem) == SInt && len(results) == 1 {
							// the two exact cases: a nil error matches nothing and leaves the target alone;
							// an error whose dynamic type is the target's type is the first match of the chain
							// (errors.As tests assignability before it asks an As method or unwraps)
							errv := g.v(c.Args[0])
							g.guard(implies(eq(errv, "0"), and(not(results[0].T), eq(nv, before))))
							if _, isPtr := elem.Underlying().(*types.Pointer); isPtr {
								g.guard(implies(and(not(eq(errv, "0")), eq("(dyntype "+errv+")", g.typeID(elem))), and(results[0].T, eq(nv, errv))))
							}
							g.guard(implies(results[0].T, not(eq(nv, "0"))))
							g.guard(implies(and(results[0].T, not(eq(nv, "0"))), "(<= (atime "+nv+") "+g.heap("alloc")+")"))
						}
						return true
					}
				}
			}
		}
		return false
	default:
		return false
	}
	fc, ok := c.Args[0].(*ssa.Const)
	if !ok || fc.Value == nil {
		return false
	}
	format := constant.StringVal(fc.Value)
	vals, okv := varargValues(c.Args[1])
	var text string
	if okv {
		text = g.formatTerm(format, vals)
	}
	if name == "fmt.Sprintf" {
		if text != "" {
			g.guard(eq(results[0].T, text))
		}
		return true
	}
	// Errorf: a fresh non-nil error whose text is the formatted string
	g.errorfUnwrap(format, vals, okv, results[0].T)
	r := results[0].T
	al := g.heap("alloc")
	g.guard(and(not(eq(r, "0")), "(<= (atime "+r+") "+al+")"))
	if text != "" {
		g.guard(eq("(errtext "+r+")", text))
	}
	g.declare("err.wraps", "(Int) Int")
	if okv {
		// %w records the wrapped error
		idx := 0
		for i := 0; i < len(format); i++ {
			if format[i] != '%' || i+1 >= len(format) {
				continue
			}
			i++
			for i < len(format) && strings.ContainsRune("+-# 0123456789.", rune(format[i])) {
				i++
			}
			if i >= len(format) || format[i] == '%' {
				continue
			}
			if format[i] == 'w' && idx < len(vals) {
				g.guard(eq("(err.wraps "+r+")", g.v(vals[idx])))
			}
			idx++
		}
	}
	return true
}

// formatTerm builds the string term for a constant format; "" if a verb is unsupported.
// errorfUnwrap: what errors.Unwrap gives for the result of fmt.Errorf - the operand of the single %w verb; nil when
// there is no %w or more than one (such an error has Unwrap() []error, which errors.Unwrap does not follow).
func (g *Gen) errorfUnwrap(format string, vals []ssa.Value, okv bool, r string) {
	if _, ok := g.S.Fns["unwrapof"]; !ok {
		return
	}
	var wIdx []int
	idx := 0
	for i := 0; i < len(format); i++ {
		if format[i] != '%' {
			continue
		}
		i++
		if i < len(format) && format[i] == '%' {
			continue
		}
		for i < len(format) && strings.ContainsRune("+-# 0123456789.", rune(format[i])) {
			i++
		}
		if i >= len(format) {
			break
		}
		if format[i] == 'w' {
			wIdx = append(wIdx, idx)
		}
		idx++
	}
	switch {
	case len(wIdx) == 1 && okv && wIdx[0] < len(vals):
		g.guard(eq("(spec.unwrapof "+r+")", g.v(vals[wIdx[0]])))
	case len(wIdx) != 1:
		g.guard(eq("(spec.unwrapof "+r+")", "0"))
	}
}

func (g *Gen) formatTerm(format string, vals []ssa.Value) string {
	var pieces []string
	lit := ""
	flush := func() {
		if lit != "" {
			pieces = append(pieces, g.strLit(lit))
			lit = ""
		}
	}
	idx := 0
	for i := 0; i < len(format); i++ {
		ch := format[i]
		if ch != '%' {
			lit += string(ch)
			continue
		}
		i++
		if i >= len(format) {
			return ""
		}
		if format[i] == '%' {
			lit += "%"
			continue
		}
		flags := ""
		for i < len(format) && strings.ContainsRune("+-# 0123456789.", rune(format[i])) {
			flags += string(format[i])
			i++
		}
		if i >= len(format) || idx >= len(vals) {
			return ""
		}
		verb := format[i]
		arg := vals[idx]
		idx++
		flush()
		var piece string
		boxed := arg
		if mi, ok := arg.(*ssa.MakeInterface); ok {
			arg = mi.X
		}
		switch {
		case (verb == 's' || verb == 'v') && flags == "":
			if verb == 'v' && sortOf(arg.Type()) == SSlc {
				return "" // %v of a slice is not its bytes
			}
			piece = "(fmt.any " + g.v(boxed) + ")"
			if sortOf(arg.Type()) == SStr && arg != boxed {
				if !hasStringMethod(arg.Type()) || inRepo(namedPkg(arg.Type())) {
					piece = g.v(arg)
				}
			}
		case verb == 'd' && flags == "" && isInteger(arg.Type()) && arg != boxed:
			piece = "(itoa " + g.v(arg) + ")"
		default:
			// other verbs: an opaque piece depending on the argument only
			fnm := sym("fmt.verb." + flags + string(verb))
			g.declare(fnm, "(Int) Str")
			piece = "(" + fnm + " " + g.v(boxed) + ")"
		}
		pieces = append(pieces, piece)
	}
	flush()
	if idx != len(vals) {
		return ""
	}
	if len(pieces) == 0 {
		return "str.empty"
	}
	t := pieces[len(pieces)-1]
	for i := len(pieces) - 2; i >= 0; i-- {
		t = "(sconcat " + pieces[i] + " " + t + ")"
	}
	return t
}

// resolveLocalAt also finds phis of dominating loop heads by their source name.
func (g *Gen) resolveLocalAt(name string, b *ssa.BasicBlock, limit int, e *Env) (TV, bool) {
	// the most recent definition wins: DebugRefs first (they include phi-defined values)
	if tv, ok := g.resolveLocal(name, b, limit, e); ok {
		return tv, true
	}
	for _, bb := range g.fn.Blocks {
		if !(bb == b || bb.Dominates(b)) {
			continue
		}
		for _, in := range bb.Instrs {
			if phi, ok := in.(*ssa.Phi); ok && phi.Comment == name {
				return TV{g.v(phi), sortOf(phi.Type()), phi.Type()}, true
			}
		}
	}
	return TV{}, false
}

// ---------------------------------------------------------------------------
// hooks for type invariants (filled in by typeinv.go)

func (g *Gen) afterStore(v *ssa.Store, lv lvalue) {}
func (g *Gen) afterMapUpdate(v *ssa.MapUpdate)     {}

// conjuncts splits a clause at its top-level && so that each conjunct becomes
// an obligation of its own (finer names, finer known findings).
func conjuncts(e *Expr) []*Expr {
	if e.Op == "bin" && e.Name == "&&" {
		return append(conjuncts(e.Args[0]), conjuncts(e.Args[1])...)
	}
	if e.Op == "bin" && e.Name == "==>" {
		rhs := conjuncts(e.Args[1])
		if len(rhs) > 1 {
			var out []*Expr
			for _, r := range rhs {
				out = append(out, &Expr{Op: "bin", Name: "==>", Args: []*Expr{e.Args[0], r}, Pos: e.Pos})
			}
			return out
		}
	}
	return []*Expr{e}
}

func cjTag(tag string, k int, whole *Expr) string {
	if len(conjuncts(whole)) > 1 {
		return fmt.Sprintf("%s.%d", tag, k+1)
	}
	return tag
}
