package main

import (
	"fmt"
	"go/token"
	"go/types"
	"sort"

	"golang.org/x/tools/go/ssa"
)

// Inferred frames (DESIGN.md §2 "Calls"): for an in-repo callee without a
// contract, the set of heaps (field-granular) it or its transitive callees may
// store to, computed syntactically over the static call graph.

// locSet says where in a heap a function may write: anywhere (all), only in the objects some of its
// parameters point to (params: parameter indexes, receiver = 0), and/or only in objects allocated
// during the call (fresh).
type locSet struct {
	all    bool
	params map[int]bool
	fresh  bool
}

func (l *locSet) merge(o *locSet) bool {
	ch := false
	if o.all && !l.all {
		l.all, ch = true, true
	}
	if o.fresh && !l.fresh {
		l.fresh, ch = true, true
	}
	for i := range o.params {
		if !l.params[i] {
			if l.params == nil {
				l.params = map[int]bool{}
			}
			l.params[i], ch = true, true
		}
	}
	return ch
}

// base classification of a value inside fn: parameter index, fresh (allocated in fn), or unknown (-1)
const (
	baseUnknown = -1
	baseFresh   = -2
)

func classifyBase(v ssa.Value, fn *ssa.Function) int {
	for i := 0; i < 8; i++ {
		switch x := v.(type) {
		case *ssa.Parameter:
			for k, p := range fn.Params {
				if p == x {
					return k
				}
			}
			return baseUnknown
		case *ssa.Alloc, *ssa.MakeMap:
			return baseFresh
		case *ssa.MakeInterface:
			if _, isPtr := x.X.Type().Underlying().(*types.Pointer); isPtr {
				v = x.X
				continue
			}
			return baseUnknown
		case *ssa.ChangeType:
			v = x.X
			continue
		case *ssa.ChangeInterface:
			v = x.X
			continue
		case *ssa.Call:
			// the result of an in-repo constructor: a function every return of which hands back an object
			// it has just allocated (directly or through another such function)
			if callee := x.Call.StaticCallee(); callee != nil && inRepoFn(callee) && returnsFresh(callee, map[*ssa.Function]bool{}) {
				return baseFresh
			}
			// the single result of a function outside the repository whose assumed contract declares it fresh
			if freshExternalResult != nil && freshExternalResult(x) {
				return baseFresh
			}
			return baseUnknown
		}
		return baseUnknown
	}
	return baseUnknown
}

// returnsFresh: fn has a single pointer result and every return hands back an Alloc of fn itself
// (or the result of a call to another such function) that is not stored anywhere else.
func returnsFresh(fn *ssa.Function, seen map[*ssa.Function]bool) bool {
	if seen[fn] || len(fn.Blocks) == 0 || fn.Signature.Results().Len() != 1 {
		return false
	}
	seen[fn] = true
	if _, isPtr := fn.Signature.Results().At(0).Type().Underlying().(*types.Pointer); !isPtr {
		return false
	}
	n := 0
	for _, b := range fn.Blocks {
		for _, in := range b.Instrs {
			r, ok := in.(*ssa.Return)
			if !ok {
				continue
			}
			n++
			switch x := r.Results[0].(type) {
			case *ssa.Alloc:
				if !x.Heap || escapesBeyondReturn(x) {
					return false
				}
			case *ssa.Call:
				callee := x.Call.StaticCallee()
				if callee == nil || !inRepoFn(callee) || !returnsFresh(callee, seen) {
					return false
				}
			default:
				return false
			}
		}
	}
	return n > 0
}

// escapesBeyondReturn: the allocated object is stored into another object, captured, or passed to a call
// (then it may be reachable from somewhere else as well and is not simply "fresh" for the caller).
func escapesBeyondReturn(a *ssa.Alloc) bool {
	for _, ref := range *a.Referrers() {
		switch r := ref.(type) {
		case *ssa.Store:
			if r.Val == a {
				return true
			}
		case *ssa.FieldAddr, *ssa.Return, *ssa.DebugRef, *ssa.UnOp:
		default:
			return true
		}
	}
	return false
}

func locOfBase(b int) *locSet {
	switch {
	case b >= 0:
		return &locSet{params: map[int]bool{b: true}}
	case b == baseFresh:
		return &locSet{fresh: true}
	}
	return &locSet{all: true}
}

func (fb *frameBuilder) add(fn *ssa.Function, n string, l *locSet) bool {
	fb.info.mods[fn][n] = true
	m := fb.info.locs[fn]
	if m == nil {
		m = map[string]*locSet{}
		fb.info.locs[fn] = m
	}
	if m[n] == nil {
		m[n] = &locSet{}
		m[n].merge(l)
		return true
	}
	return m[n].merge(l)
}

type callRec struct {
	callee *ssa.Function
	args   []ssa.Value // aligned with callee.Params (nil entry: unknown)
}

func (f *FrameInfo) locsOf(fn *ssa.Function) map[string]*locSet {
	out := map[string]*locSet{}
	for n, l := range f.locs[fn] {
		if f.restores[fn][n] {
			continue
		}
		out[n] = l
	}
	return out
}

func (f *FrameInfo) modsOf(fn *ssa.Function) []string {
	var out []string
	for n := range f.mods[fn] {
		if f.restores[fn][n] {
			continue
		}
		out = append(out, n)
	}
	sort.Strings(out)
	return out
}

type frameBuilder struct {
	P     *Program
	S     *SpecSet
	ng    *Gen // namer
	info  *FrameInfo
	calls map[*ssa.Function][]*ssa.Function
	recs  map[*ssa.Function][]callRec
	static map[*ssa.Function][]*ssa.Function // static calls only (no interface dispatch)
	impls map[string][]*ssa.Function // method name -> in-repo methods
}

// freshExternalResult: set by computeFrames; says whether an external call's (single) result is declared fresh by
// the callee's assumed contract (`ensures ... fresh(result-name) ...` outside an implication's left side).
var freshExternalResult func(c *ssa.Call) bool

func computeFrames(P *Program, S *SpecSet) *FrameInfo {
	info := &FrameInfo{mods: map[*ssa.Function]map[string]bool{}, restores: map[*ssa.Function]map[string]bool{}, locs: map[*ssa.Function]map[string]*locSet{}, reads: map[*ssa.Function]map[string]bool{}, impure: map[*ssa.Function]bool{}}
	ng := &Gen{P: P, S: S, heapSort: map[string]string{}, decl: map[string]string{}, globals: map[string]bool{}, typeIDs: map[string]int{}, strLits: map[string]string{}, cur: map[string]string{}, allMods: map[string]bool{}, blockMod: map[int]map[string]bool{}, oblSeen: map[string]int{}}
	ng.curBlk = -1
	freshExternalResult = func(x *ssa.Call) bool {
		callee := x.Call.StaticCallee()
		if callee == nil || inRepoFn(callee) || callee.Signature.Results().Len() != 1 {
			return false
		}
		ctr := ng.contractFor(ng.resolveCallee(&x.Call))
		if ctr == nil || !ctr.Assumed || len(ctr.Results) != 1 {
			return false
		}
		for _, cl := range ctr.Clauses {
			if cl.Kind != "ensures" {
				continue
			}
			for _, cj := range conjuncts(cl.E) {
				if cj.Op == "call" && cj.Name == "fresh" && len(cj.Args) == 1 && cj.Args[0].Op == "id" && cj.Args[0].Name == ctr.Results[0] {
					return true
				}
			}
		}
		return false
	}
	fb := &frameBuilder{P: P, S: S, ng: ng, info: info, calls: map[*ssa.Function][]*ssa.Function{}, recs: map[*ssa.Function][]callRec{}, static: map[*ssa.Function][]*ssa.Function{}, impls: map[string][]*ssa.Function{}}
	var all []*ssa.Function
	seen := map[*ssa.Function]bool{}
	var addFn func(fn *ssa.Function)
	addFn = func(fn *ssa.Function) {
		if seen[fn] {
			return
		}
		seen[fn] = true
		all = append(all, fn)
		for _, a := range fn.AnonFuncs {
			addFn(a)
		}
	}
	for _, fn := range P.RepoFns {
		addFn(fn)
	}
	for _, fn := range all {
		if fn.Signature.Recv() != nil {
			fb.impls[fn.Name()] = append(fb.impls[fn.Name()], fn)
		}
	}
	fieldStores = map[string][]ssa.Value{}
	fieldStoresOpaque = map[string]bool{}
	for _, fn := range all {
		for _, b := range fn.Blocks {
			for _, in := range b.Instrs {
				st, ok := in.(*ssa.Store)
				if !ok {
					continue
				}
				if fa, ok := st.Addr.(*ssa.FieldAddr); ok {
					if _, isIface := st.Val.Type().Underlying().(*types.Interface); isIface {
						fieldStores[fieldKey(fa)] = append(fieldStores[fieldKey(fa)], st.Val)
					}
				} else if _, isStruct := deref(st.Addr.Type()).Underlying().(*types.Struct); isStruct {
					// whole-struct store: fields of that struct type become opaque
					stt := deref(st.Addr.Type())
					sts := stt.Underlying().(*types.Struct)
					for i := 0; i < sts.NumFields(); i++ {
						fieldStoresOpaque[typeKey(stt)+"."+sts.Field(i).Name()] = true
					}
				}
			}
		}
	}
	for _, fn := range all {
		info.mods[fn] = map[string]bool{}
		fb.direct(fn)
		k := P.KeyOf[fn]
		if k == "" {
			k = funcKey(fn)
		}
		if ctr := S.Contracts[k]; ctr != nil && !ctr.Assumed {
			for _, cl := range ctr.Clauses {
				if cl.Kind == "restores" {
					if info.restores[fn] == nil {
						info.restores[fn] = map[string]bool{}
					}
					for _, n := range cl.Names {
						info.restores[fn]["G."+n] = true
					}
				}
			}
		}
	}
	// read sets and purity (for "a pure in-repo function is a function of its arguments and of what it reads")
	for _, fn := range all {
		fb.directReads(fn)
	}
	for changed := true; changed; {
		changed = false
		for _, fn := range all {
			for _, cal := range fb.static[fn] {
				if info.impure[cal] && !info.impure[fn] {
					info.impure[fn], changed = true, true
				}
				for n := range info.reads[cal] {
					if !info.reads[fn][n] {
						info.reads[fn][n], changed = true, true
					}
				}
			}
		}
	}
	// fixed point over the call records (locations are translated through the arguments of each call)
	for changed := true; changed; {
		changed = false
		for _, fn := range all {
			for _, rec := range fb.recs[fn] {
				for n, ls := range info.locs[rec.callee] {
					if info.restores[rec.callee][n] {
						continue
					}
					tr := &locSet{all: ls.all, fresh: ls.fresh}
					for j := range ls.params {
						var a ssa.Value
						if j < len(rec.args) {
							a = rec.args[j]
						}
						if a == nil {
							tr.all = true
							continue
						}
						tr.merge(locOfBase(classifyBase(a, fn)))
					}
					if fb.add(fn, n, tr) {
						changed = true
					}
				}
			}
		}
	}
	info.sorts = ng.heapSort
	info.fb = fb
	return info
}

func baseIsLocalAlloc(v ssa.Value) bool {
	for {
		switch x := v.(type) {
		case *ssa.Alloc:
			return true
		case *ssa.FieldAddr:
			v = x.X
		case *ssa.IndexAddr:
			if _, ok := x.X.Type().Underlying().(*types.Pointer); ok {
				v = x.X
			} else {
				return false
			}
		default:
			return false
		}
	}
}

func (fb *frameBuilder) storeNames(addr ssa.Value) []string {
	ng := fb.ng
	pt, ok := addr.Type().Underlying().(*types.Pointer)
	if !ok {
		return nil
	}
	elem := pt.Elem()
	var allFields func(t types.Type) []string
	allFields = func(t types.Type) []string {
		var out []string
		if st, ok := t.Underlying().(*types.Struct); ok {
			for i := 0; i < st.NumFields(); i++ {
				f := st.Field(i)
				if isStructT(f.Type()) {
					out = append(out, allFields(f.Type())...)
				} else if at, ok := f.Type().Underlying().(*types.Array); ok {
					out = append(out, ng.arrHeap(at.Elem()))
				} else {
					out = append(out, ng.fieldHeap(t, f))
				}
			}
		}
		return out
	}
	switch x := addr.(type) {
	case *ssa.FieldAddr:
		st := deref(x.X.Type())
		fld := st.Underlying().(*types.Struct).Field(x.Field)
		if isStructT(elem) {
			return allFields(elem)
		}
		if at, ok := elem.Underlying().(*types.Array); ok {
			return []string{ng.arrHeap(at.Elem())}
		}
		return []string{ng.fieldHeap(st, fld)}
	case *ssa.IndexAddr:
		if isStructT(elem) {
			return allFields(elem)
		}
		return []string{ng.arrHeap(elem)}
	}
	if isStructT(elem) {
		return allFields(elem)
	}
	if at, ok := elem.Underlying().(*types.Array); ok {
		return []string{ng.arrHeap(at.Elem())}
	}
	return []string{ng.cellHeap(elem)}
}

// contractMods resolves the modifies clauses of a contract at a call: heap name -> where.
// Arguments and results are bound to recognisable dummy terms, so that a target rooted in an argument
// (or in a result the contract declares fresh) can be classified; everything else is "anywhere".
func (fb *frameBuilder) contractMods(ctr *Contract, ce callee, c *ssa.CallCommon, fn *ssa.Function) map[string]*locSet {
	ng := fb.ng
	var args []TV
	var argVals []ssa.Value
	if ce.isInvoke {
		args = append(args, TV{"arg!0", SInt, c.Value.Type()})
		argVals = append(argVals, c.Value)
	}
	for _, a := range c.Args {
		args = append(args, TV{fmt.Sprintf("arg!%d", len(args)), sortOf(a.Type()), a.Type()})
		argVals = append(argVals, a)
	}
	var results []TV
	if ce.sig != nil {
		rs := ce.sig.Results()
		for i := 0; i < rs.Len(); i++ {
			results = append(results, TV{fmt.Sprintf("res!%d", i), sortOf(rs.At(i).Type()), rs.At(i).Type()})
		}
	}
	// results the contract declares fresh
	freshRes := map[string]bool{}
	var walk func(e *Expr)
	walk = func(e *Expr) {
		if e == nil {
			return
		}
		if e.Op == "call" && e.Name == "fresh" && len(e.Args) == 1 && e.Args[0].Op == "id" {
			freshRes[e.Args[0].Name] = true
		}
		for _, a := range e.Args {
			walk(a)
		}
	}
	for _, cl := range ctr.Clauses {
		if cl.Kind == "ensures" {
			walk(cl.E)
		}
	}
	out := map[string]*locSet{}
	put := func(n string, l *locSet) {
		if out[n] == nil {
			out[n] = &locSet{}
		}
		out[n].merge(l)
	}
	for _, cl := range ctr.Clauses {
		if cl.Kind != "modifies" {
			continue
		}
		for _, m := range cl.Mods {
			func() {
				resolved := false
				var names []string
				defer func() {
					if r := recover(); r != nil {
						if _, ok := r.(error); !ok {
							panic(r)
						}
						// unresolvable target: be conservative about the heaps we can name
						if !resolved && m.Op == "sel" {
							if h, _, _ := ng.ghostHeap(m.Name); h != "" {
								put(h, &locSet{all: true})
							}
						}
						_ = names
					}
				}()
				pre, post := ng.calleeEnv(ctr, ce, c, args, results, map[string]string{})
				modEnv := &Env{g: ng, vars: post.vars, heapState: map[string]string{}, pkg: pre.pkg, lookup: pre.lookup}
				modEnv.old = modEnv
				for _, l := range ng.resolveMod(m, modEnv) {
					resolved = true
					loc := &locSet{all: true}
					var k int
					if n, _ := fmt.Sscanf(l.ref, "arg!%d", &k); n == 1 && l.ref == fmt.Sprintf("arg!%d", k) && k < len(argVals) {
						loc = locOfBase(classifyBase(argVals[k], fn))
					} else if n, _ := fmt.Sscanf(l.ref, "res!%d", &k); n == 1 && l.ref == fmt.Sprintf("res!%d", k) {
						// result-rooted: fresh when the contract says so
						for name, tv := range post.vars {
							if tv.T == l.ref && freshRes[name] {
								loc = &locSet{fresh: true}
							}
						}
					}
					put(l.heap, loc)
					if l.heap2 != "" {
						put(l.heap2, loc)
					}
				}
			}()
		}
	}
	return out
}

func (fb *frameBuilder) direct(fn *ssa.Function) {
	ng := fb.ng
	ng.fn = fn
	ng.key = fb.P.KeyOf[fn]
	if ng.key == "" {
		ng.key = funcKey(fn)
	}
	ng.closures = map[ssa.Value]*ssa.MakeClosure{}
	for _, b := range fn.Blocks {
		for _, in := range b.Instrs {
			if mc, ok := in.(*ssa.MakeClosure); ok {
				ng.closures[mc] = mc
			}
			if ct, ok := in.(*ssa.ChangeType); ok {
				if mc, ok := ct.X.(*ssa.MakeClosure); ok {
					ng.closures[ct] = mc
				}
			}
		}
	}
	// ghost fields assigned by anchored ghost statements of this function
	for _, a := range fb.S.Ats {
		if a.Func == ng.key && a.Kind == "ghost" && a.LHS != nil && a.LHS.Op == "sel" {
			if h, _, _ := ng.ghostHeap(a.LHS.Name); h != "" {
				loc := &locSet{all: true}
				if b := a.LHS.Args[0]; b != nil && b.Op == "id" {
					for k, p := range fn.Params {
						if p.Name() == b.Name {
							loc = locOfBase(k)
						}
					}
				}
				fb.add(fn, h, loc)
			}
		}
	}
	alignArgs := func(cal *ssa.Function, c *ssa.CallCommon, invoke bool) []ssa.Value {
		var av []ssa.Value
		if invoke {
			av = append(av, c.Value)
		}
		av = append(av, c.Args...)
		if len(av) != len(cal.Params) {
			return nil
		}
		return av
	}
	siteOrd := map[string]int{}
	for _, b := range fn.Blocks {
		for _, in := range b.Instrs {
			switch v := in.(type) {
			case *ssa.Store:
				if baseIsLocalAlloc(v.Addr) {
					continue
				}
				loc := &locSet{all: true}
				if fa, ok := v.Addr.(*ssa.FieldAddr); ok {
					elem := deref(fa.Type())
					if !isStructT(elem) && !isArrayT(elem) {
						loc = locOfBase(classifyBase(fa.X, fn))
					}
				}
				for _, n := range fb.storeNames(v.Addr) {
					fb.add(fn, n, loc)
				}
			case *ssa.MapUpdate:
				if _, ok := v.Map.(*ssa.MakeMap); ok {
					continue
				}
				has, val := ng.mapHeaps(v.Map.Type().Underlying().(*types.Map))
				loc := locOfBase(classifyBase(v.Map, fn))
				fb.add(fn, has, loc)
				fb.add(fn, val, loc)
			case ssa.CallInstruction:
				c := v.Common()
				if bi, ok := c.Value.(*ssa.Builtin); ok {
					switch bi.Name() {
					case "append":
						if sl, ok := c.Args[0].Type().Underlying().(*types.Slice); ok {
							fb.add(fn, ng.arrHeap(sl.Elem()), &locSet{all: true})
						}
					case "copy":
						if sl, ok := c.Args[0].Type().Underlying().(*types.Slice); ok {
							fb.add(fn, ng.arrHeap(sl.Elem()), &locSet{all: true})
						}
					case "delete":
						has, _ := ng.mapHeaps(c.Args[0].Type().Underlying().(*types.Map))
						fb.add(fn, has, locOfBase(classifyBase(c.Args[0], fn)))
					}
					continue
				}
				ce := ng.resolveCallee(c)
				if _, isCall := in.(*ssa.Call); isCall {
					siteOrd[ce.label]++
					ce.siteKey = fmt.Sprintf("%s@%s#%d", ng.key, ce.label, siteOrd[ce.label])
				}
				if sc := fb.S.Contracts[ce.siteKey]; sc != nil && ce.siteKey != "" {
					for n, l := range fb.contractMods(sc, ce, c, fn) {
						fb.add(fn, n, l)
					}
					continue
				}
				if ce.fn != nil && inRepoFn(ce.fn) {
					fb.calls[fn] = append(fb.calls[fn], ce.fn)
					fb.static[fn] = append(fb.static[fn], ce.fn)
					fb.recs[fn] = append(fb.recs[fn], callRec{ce.fn, alignArgs(ce.fn, c, false)})
					continue
				}
				if ctr := ng.contractFor(ce); ctr != nil && ctr.Assumed {
					for n, l := range fb.contractMods(ctr, ce, c, fn) {
						fb.add(fn, n, l)
					}
				}
				if ce.isInvoke {
					for _, impl := range fb.implsOf(c) {
						fb.calls[fn] = append(fb.calls[fn], impl)
						fb.recs[fn] = append(fb.recs[fn], callRec{impl, alignArgs(impl, c, true)})
					}
				}
			}
		}
	}
	_ = token.NoPos
}

// directReads: heaps loaded from directly, and whether the function does anything that makes its
// result depend on more than arguments and loads (calls outside the repository or through
// interfaces / function values, stores, allocation, channels, goroutines, defers, panics).
func (fb *frameBuilder) directReads(fn *ssa.Function) {
	ng := fb.ng
	info := fb.info
	info.reads[fn] = map[string]bool{}
	ng.fn = fn
	if len(fn.FreeVars) > 0 || fn.Recover != nil {
		info.impure[fn] = true
	}
	for _, b := range fn.Blocks {
		for _, in := range b.Instrs {
			switch v := in.(type) {
			case *ssa.UnOp:
				if v.Op == token.MUL {
					for _, n := range fb.storeNames(v.X) {
						info.reads[fn][n] = true
					}
				} else if v.Op == token.ARROW {
					info.impure[fn] = true
				}
			case *ssa.Lookup:
				if mt, ok := v.X.Type().Underlying().(*types.Map); ok {
					has, val := ng.mapHeaps(mt)
					info.reads[fn][has], info.reads[fn][val] = true, true
				}
			case *ssa.Range, *ssa.Next:
				// map iteration order is not a function of the state
				if r, ok := v.(*ssa.Range); ok {
					if _, isMap := r.X.Type().Underlying().(*types.Map); isMap {
						info.impure[fn] = true
					}
				}
			case *ssa.Store, *ssa.MapUpdate, *ssa.Alloc, *ssa.MakeMap, *ssa.MakeSlice, *ssa.MakeClosure, *ssa.MakeChan,
				*ssa.Send, *ssa.Select, *ssa.Go, *ssa.Defer, *ssa.Panic, *ssa.MakeInterface, *ssa.TypeAssert:
				if al, ok := v.(*ssa.Alloc); ok && !al.Heap {
					// a local that does not escape; loads from it are covered by the cell heap reads
					continue
				}
				if st, ok := v.(*ssa.Store); ok && baseIsLocalAlloc(st.Addr) {
					continue
				}
				info.impure[fn] = true
			case *ssa.Call:
				c := v.Common()
				if bi, ok := c.Value.(*ssa.Builtin); ok {
					switch bi.Name() {
					case "len", "cap":
						if mt, ok := c.Args[0].Type().Underlying().(*types.Map); ok {
							has, _ := ng.mapHeaps(mt)
							info.reads[fn][has] = true
						}
					default:
						info.impure[fn] = true
					}
					continue
				}
				if cal := c.StaticCallee(); cal != nil && inRepoFn(cal) && len(cal.Blocks) > 0 {
					continue // through fb.static
				}
				info.impure[fn] = true
			}
		}
	}
}

// deterministic reports whether fn is a function of its arguments and its read set.
func (f *FrameInfo) deterministic(fn *ssa.Function) ([]string, bool) {
	if f.impure[fn] || len(f.mods[fn]) > 0 {
		return nil, false
	}
	var rs []string
	for n := range f.reads[fn] {
		rs = append(rs, n)
	}
	sort.Strings(rs)
	return rs, true
}

// implsOf: in-repo methods that an interface-method invoke may reach.
func (fb *frameBuilder) implsOf(c *ssa.CallCommon) []*ssa.Function {
	iface, ok := c.Value.Type().Underlying().(*types.Interface)
	if !ok {
		return nil
	}
	// local flow refinement: which concrete types can the receiver hold?
	// (assumption, listed in the evidence: an interface value returned by a function
	// outside the repository is not an object of a repository type)
	known, concrete := receiverSources(c.Value, map[ssa.Value]bool{})
	var out []*ssa.Function
	for _, m := range fb.impls[c.Method.Name()] {
		rt := m.Signature.Recv().Type()
		if !types.Implements(rt, iface) {
			continue
		}
		if known {
			ok := false
			for _, t := range concrete {
				if types.Identical(t, rt) {
					ok = true
				}
			}
			if !ok {
				continue
			}
		}
		out = append(out, m)
	}
	return out
}

// receiverSources traces an interface value back to its sources inside the function.
// known=false means some source is opaque (parameter, load, in-repo call result).
// fieldStores: for every struct field of interface type, the values stored into it anywhere in
// the repository (whole-program, flow-insensitive). Filled by computeFrames.
var fieldStores = map[string][]ssa.Value{}
var fieldStoresOpaque = map[string]bool{}

func fieldKey(fa *ssa.FieldAddr) string {
	st := deref(fa.X.Type())
	return typeKey(st) + "." + st.Underlying().(*types.Struct).Field(fa.Field).Name()
}

func receiverSources(v ssa.Value, seen map[ssa.Value]bool) (known bool, concrete []types.Type) {
	if seen[v] {
		return true, nil
	}
	seen[v] = true
	switch x := v.(type) {
	case *ssa.UnOp:
		if fa, ok := x.X.(*ssa.FieldAddr); ok && x.Op == token.MUL {
			k := fieldKey(fa)
			// only unexported fields of repository types: nobody outside can store to them
			st := deref(fa.X.Type())
			fld := st.Underlying().(*types.Struct).Field(fa.Field)
			if fld.Exported() || !inRepo(namedPkg(st)) || fieldStoresOpaque[k] {
				return false, nil
			}
			var all []types.Type
			for _, sv := range fieldStores[k] {
				kn, c := receiverSources(sv, seen)
				if !kn {
					return false, nil
				}
				all = append(all, c...)
			}
			return true, all
		}
	case *ssa.MakeInterface:
		return true, []types.Type{x.X.Type()}
	case *ssa.ChangeInterface:
		return receiverSources(x.X, seen)
	case *ssa.Const:
		return true, nil // nil interface
	case *ssa.Phi:
		var all []types.Type
		for _, e := range x.Edges {
			k, c := receiverSources(e, seen)
			if !k {
				return false, nil
			}
			all = append(all, c...)
		}
		return true, all
	case *ssa.Call:
		if fn := x.Call.StaticCallee(); fn != nil && !inRepoFn(fn) {
			return true, nil
		}
	case *ssa.Extract:
		if call, ok := x.Tuple.(*ssa.Call); ok {
			if fn := call.Call.StaticCallee(); fn != nil && !inRepoFn(fn) {
				return true, nil
			}
		}
	}
	return false, nil
}

func (f *FrameInfo) dynamicMods(P *Program, ce callee, c *ssa.CallCommon) []string {
	set := map[string]bool{}
	if ce.isInvoke && f.fb != nil {
		for _, impl := range f.fb.implsOf(c) {
			for n := range f.mods[impl] {
				set[n] = true
			}
		}
	}
	var out []string
	for n := range set {
		out = append(out, n)
	}
	sort.Strings(out)
	return out
}
