package main

// Termination obligations (props "termination": true).
//
// Every loop head of a function under the property is classified:
//   - range loops over slices, arrays, strings, maps and integers end by the semantics of Go (the index / iterator is
//     advanced by the compiler-generated header, never by the body): counted as "structural", no obligation;
//   - every other loop head (`for` with a condition, `for {}`, loops built with goto, range over a channel or a
//     function) needs `loop N decreases E`: the obligations dec:loopN (E >= 0 at the head and strictly smaller after
//     every back edge) - or, failing that, a recorded argument in props loop_variants (an assumption, listed) - or it
//     carries the obligation termination:loopN, which fails.
// Every call inside a call-graph cycle of in-repo functions (static calls, CHA-resolved invokes, closures of their
// parents) needs function-level `decreases E` clauses on both ends: rec-dec at the call site (callee's measure over the
// actual arguments < caller's measure at entry, which is >= 0), or carries the failing obligation termination:recursion.
// Calls that leave the repository are assumed to return (listed as an assumption of the run).

import (
	"flag"
	"go/token"
	"os"
	"fmt"
	"sort"
	"strings"

	"golang.org/x/tools/go/ssa"
)

// structuralLoop: a loop head whose termination follows from the language semantics.
func structuralLoop(b *ssa.BasicBlock) bool {
	switch {
	case strings.HasPrefix(b.Comment, "rangeindex.loop"), strings.HasPrefix(b.Comment, "rangeiter.loop"), strings.HasPrefix(b.Comment, "rangeint.loop"):
		return true
	}
	return false
}

// cyclicFns: functions (of the whole repository) that lie on a cycle of the call graph, with the id of their SCC.
func (c *Ctx) cyclicFns() map[*ssa.Function]int {
	fb := c.Frames.fb
	all := c.allFunctions()
	succ := func(fn *ssa.Function) []*ssa.Function {
		out := append([]*ssa.Function{}, fb.calls[fn]...)
		out = append(out, fn.AnonFuncs...)
		return out
	}
	// Tarjan
	index := map[*ssa.Function]int{}
	low := map[*ssa.Function]int{}
	on := map[*ssa.Function]bool{}
	var stack []*ssa.Function
	next := 0
	res := map[*ssa.Function]int{}
	nscc := 0
	var strong func(v *ssa.Function)
	strong = func(v *ssa.Function) {
		next++
		index[v], low[v] = next, next
		stack = append(stack, v)
		on[v] = true
		for _, w := range succ(v) {
			if index[w] == 0 {
				strong(w)
				if low[w] < low[v] {
					low[v] = low[w]
				}
			} else if on[w] && index[w] < low[v] {
				low[v] = index[w]
			}
		}
		if low[v] == index[v] {
			var comp []*ssa.Function
			for {
				w := stack[len(stack)-1]
				stack = stack[:len(stack)-1]
				on[w] = false
				comp = append(comp, w)
				if w == v {
					break
				}
			}
			cyc := len(comp) > 1
			if !cyc {
				for _, w := range succ(v) {
					if w == v {
						cyc = true
					}
				}
			}
			if cyc {
				nscc++
				for _, w := range comp {
					res[w] = nscc
				}
			}
		}
	}
	for _, fn := range all {
		if index[fn] == 0 {
			strong(fn)
		}
	}
	return res
}

func cmdLoops(args []string) int {
	fs := flag.NewFlagSet("loops", flag.ExitOnError)
	repo := fs.String("repo", "/repo", "")
	verif := fs.String("verif", "/verif", "")
	prop := fs.String("prop", "", "")
	fs.Parse(args)
	c, err := newCtx(*repo, *verif)
	if err != nil {
		fmt.Fprintln(os.Stderr, err)
		return 2
	}
	var cfg PropConfig
	if err := readJSON(*verif+"/props/"+*prop+".json", &cfg); err != nil {
		fmt.Fprintln(os.Stderr, err)
		return 2
	}
	fns, _ := c.functionSet(*prop, &cfg)
	cyc := c.cyclicFns()
	for _, fn := range fns {
		if len(fn.Blocks) == 0 {
			continue
		}
		g := newGen(c.P, c.S, *prop, fn, c.Frames)
		g.prepareCFG()
		var hs []int
		for h := range g.heads {
			hs = append(hs, h)
		}
		sort.Ints(hs)
		for _, h := range hs {
			b := fn.Blocks[h]
			kind := "NEEDS-VARIANT"
			if structuralLoop(b) {
				kind = "structural"
			}
			fmt.Printf("%-60s loop%d %-18s %-14s %s\n", c.keyOf(fn), g.headOrd[h], b.Comment, kind, c.P.posString(ab0pos(b)))
		}
		if id, ok := cyc[fn]; ok {
			fmt.Printf("%-60s RECURSIVE scc=%d\n", c.keyOf(fn), id)
		}
	}
	return 0
}

func (g *Gen) hasDecreases(loop int) bool {
	if g.ctr == nil {
		return false
	}
	for _, cl := range g.ctr.Clauses {
		if cl.Kind == "decreases" && cl.Loop == loop && cl.visible(g.prop) {
			return true
		}
	}
	return false
}

func fnDecreases(ctr *Contract, prop string) *Clause {
	if ctr == nil {
		return nil
	}
	for _, cl := range ctr.Clauses {
		if cl.Kind == "decreases" && cl.Loop == 0 && cl.visible(prop) {
			return cl
		}
	}
	return nil
}

// recursionObligation: a call that stays inside a cycle of the call graph must lower the measure.
func (g *Gen) recursionObligation(ce callee, c *ssa.CallCommon, args []TV, pos token.Pos, guard string) {
	if !g.termination || g.termCyc == nil || g.parent != nil {
		return
	}
	my := g.termCyc[g.fn]
	if my == 0 {
		return
	}
	var targets []*ssa.Function
	if ce.fn != nil {
		targets = append(targets, ce.fn)
	} else if ce.isInvoke && g.frames != nil && g.frames.fb != nil {
		targets = append(targets, g.frames.fb.implsOf(c)...)
	}
	inCycle := false
	for _, t := range targets {
		if g.termCyc[t] == my {
			inCycle = true
		}
	}
	if !inCycle {
		return
	}
	var calleeCl *Clause
	var calleeCtr *Contract
	if ce.fn != nil {
		calleeCtr = g.S.Contracts[g.P.KeyOf[ce.fn]]
		calleeCl = fnDecreases(calleeCtr, g.prop)
	}
	callerCl := fnDecreases(g.ctr, g.prop)
	if calleeCl == nil || callerCl == nil {
		// a recursive call without a measure on both ends (or through dynamic dispatch)
		g.oblige("termination", "recursion:"+ce.label, "", []string{g.prop}, false, implies(guard, "false"), pos)
		return
	}
	preEnv, _ := g.calleeEnv(calleeCtr, ce, c, args, nil, copyState(g.cur))
	after := g.trans(calleeCl.E, preEnv)
	before := g.trans(callerCl.E, g.fnEnv(nil).old)
	g.oblige("rec-dec", ce.label, callerCl.Tag, callerCl.Props, false,
		implies(guard, and("(< "+after.T+" "+before.T+")", "(>= "+before.T+" 0)")), pos)
}
