package main

import (
	"fmt"
	"go/types"
	"strings"
)

// Sorts used in the encoding (DESIGN.md §2 / Appendix C, as built):
//   Int  — integers, pointers, interfaces, maps, funcs, chans, opaque struct/array values (0 = nil)
//   Bool — booleans
//   Str  — strings (uninterpreted sort with slen / sat)
//   Slc  — slice headers (uninterpreted sort with sl_arr / sl_off / sl_len / sl_cap)
type Sort string

const (
	SInt  Sort = "Int"
	SBool Sort = "Bool"
	SStr  Sort = "Str"
	SSlc  Sort = "Slc"
)

func sortOf(t types.Type) Sort {
	if t == nil {
		return SInt
	}
	switch u := t.Underlying().(type) {
	case *types.Basic:
		switch {
		case u.Info()&types.IsBoolean != 0:
			return SBool
		case u.Info()&types.IsString != 0:
			return SStr
		}
		return SInt
	case *types.Slice:
		return SSlc
	}
	return SInt
}

func sortOfName(n string) Sort {
	switch n {
	case "bool":
		return SBool
	case "string":
		return SStr
	case "slice":
		return SSlc
	}
	return SInt
}

func zeroOf(s Sort) string {
	switch s {
	case SBool:
		return "false"
	case SStr:
		return "str.empty"
	case SSlc:
		return "slc.nil"
	}
	return "0"
}

func isInteger(t types.Type) bool {
	b, ok := t.Underlying().(*types.Basic)
	return ok && b.Info()&types.IsInteger != 0
}

func isUnsigned(t types.Type) bool {
	b, ok := t.Underlying().(*types.Basic)
	return ok && b.Info()&types.IsUnsigned != 0
}

func isStringT(t types.Type) bool {
	b, ok := t.Underlying().(*types.Basic)
	return ok && b.Info()&types.IsString != 0
}

func sym(s string) string {
	var b strings.Builder
	for _, r := range s {
		switch {
		case r >= 'a' && r <= 'z', r >= 'A' && r <= 'Z', r >= '0' && r <= '9', r == '_', r == '.', r == '@', r == '!', r == '$':
			b.WriteRune(r)
		case r == '*':
			b.WriteString("ptr.")
		case r == '[':
			b.WriteString("_L")
		case r == ']':
			b.WriteString("R_")
		default:
			b.WriteRune('_')
		}
	}
	return b.String()
}

func intLit(v int64) string {
	if v < 0 {
		return fmt.Sprintf("(- %d)", -v)
	}
	return fmt.Sprintf("%d", v)
}

func and(xs ...string) string {
	var ys []string
	for _, x := range xs {
		if x == "true" || x == "" {
			continue
		}
		ys = append(ys, x)
	}
	switch len(ys) {
	case 0:
		return "true"
	case 1:
		return ys[0]
	}
	return "(and " + strings.Join(ys, " ") + ")"
}

func or(xs ...string) string {
	var ys []string
	for _, x := range xs {
		if x == "false" || x == "" {
			continue
		}
		ys = append(ys, x)
	}
	switch len(ys) {
	case 0:
		return "false"
	case 1:
		return ys[0]
	}
	return "(or " + strings.Join(ys, " ") + ")"
}

func not(x string) string {
	if x == "true" {
		return "false"
	}
	if x == "false" {
		return "true"
	}
	return "(not " + x + ")"
}

func implies(a, b string) string {
	if a == "true" {
		return b
	}
	return "(=> " + a + " " + b + ")"
}

func eq(a, b string) string { return "(= " + a + " " + b + ")" }

// prelude is the fixed background theory. Every axiom here is guarded so that it
// cannot make a query inconsistent by itself (see DESIGN.md §2, query rule).
// The prelude is split into an always-included core and blocks that are only
// included when their trigger symbol occurs in the query (relevance filtering:
// dropping an axiom can only turn unsat into sat/unknown, never the reverse).
const preludeCore = `(declare-sort Str 0)
(declare-sort Slc 0)
(declare-fun slen (Str) Int)
(declare-fun sat (Str Int) Int)
(declare-fun str.empty () Str)
(assert (= (slen str.empty) 0))
(assert (forall ((s Str)) (! (>= (slen s) 0) :pattern ((slen s)))))
(assert (forall ((s Str) (i Int)) (! (and (<= 0 (sat s i)) (<= (sat s i) 255)) :pattern ((sat s i)))))
(declare-fun sconcat (Str Str) Str)
(declare-fun ssub (Str Int Int) Str)
(declare-fun sl_arr (Slc) Int)
(declare-fun sl_off (Slc) Int)
(declare-fun sl_len (Slc) Int)
(declare-fun sl_cap (Slc) Int)
(declare-fun slc.nil () Slc)
(assert (forall ((s Slc)) (! (>= (sl_len s) 0) :pattern ((sl_len s)))))
(assert (and (= (sl_arr slc.nil) 0) (= (sl_off slc.nil) 0) (= (sl_len slc.nil) 0) (= (sl_cap slc.nil) 0)))
(declare-fun dyntype (Int) Int)
(declare-fun atime (Int) Int)
(declare-fun unbox.Int (Int) Int)
(declare-fun unbox.Bool (Int) Bool)
(declare-fun unbox.Str (Int) Str)
(declare-fun unbox.Slc (Int) Slc)
(declare-fun fmt.any (Int) Str)
(declare-fun itoa (Int) Str)
(declare-fun errtext (Int) Str)
(declare-fun maplen (Int) Int)
(declare-fun bit.and (Int Int) Int)
(declare-fun bit.or (Int Int) Int)
(declare-fun bit.xor (Int Int) Int)
(declare-fun bit.shl (Int Int) Int)
(declare-fun bit.shr (Int Int) Int)
(declare-fun bit.andnot (Int Int) Int)
(declare-fun bit.not (Int) Int)
(declare-fun str.lt (Str Str) Bool)
(declare-fun str.of ((Array Int Int) Int Int) Str)
(declare-fun opq.mul (Int Int) Int)
(declare-fun opq.div (Int Int) Int)
(declare-fun opq.rem (Int Int) Int)
`

var preludeBlocks = []struct{ trigger, text string }{
	{"str.of", `(assert (forall ((c (Array Int Int)) (o Int) (n Int)) (! (=> (<= 0 n) (= (slen (str.of c o n)) n)) :pattern ((str.of c o n)))))
(assert (forall ((c (Array Int Int)) (o Int) (n Int) (i Int)) (! (=> (and (<= 0 i) (< i n) (<= 0 (select c (+ o i))) (<= (select c (+ o i)) 255)) (= (sat (str.of c o n) i) (select c (+ o i)))) :pattern ((sat (str.of c o n) i)))))
`},
	{"sconcat", `(assert (forall ((a Str) (b Str)) (! (= (slen (sconcat a b)) (+ (slen a) (slen b))) :pattern ((sconcat a b)))))
(assert (forall ((a Str) (b Str) (i Int)) (! (=> (and (<= 0 i) (< i (slen a))) (= (sat (sconcat a b) i) (sat a i))) :pattern ((sat (sconcat a b) i)))))
(assert (forall ((a Str) (b Str) (i Int)) (! (=> (and (<= (slen a) i) (< i (+ (slen a) (slen b)))) (= (sat (sconcat a b) i) (sat b (- i (slen a))))) :pattern ((sat (sconcat a b) i)))))
`},
	{"ssub", `(assert (forall ((s Str) (l Int) (h Int)) (! (=> (and (<= 0 l) (<= l h) (<= h (slen s))) (= (slen (ssub s l h)) (- h l))) :pattern ((ssub s l h)))))
(assert (forall ((s Str) (l Int) (h Int) (i Int)) (! (=> (and (<= 0 l) (<= l h) (<= h (slen s)) (<= 0 i) (< i (- h l))) (= (sat (ssub s l h) i) (sat s (+ l i)))) :pattern ((sat (ssub s l h) i)))))
`},
}
