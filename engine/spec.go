package main

// Parser for the //@ contract language (DESIGN.md Appendix D, as built).
//
// A spec source is a sequence of logical lines. In Go files only lines that
// start with "//@" are read; in *.spec files every non-empty line that does not
// start with "--" is read. A line ending in "\" continues on the next line.

import (
	"fmt"
	"os"
	"strconv"
	"strings"
	"unicode"
)

// ---------- expressions ----------

type Expr struct {
	Op   string  // "id","int","str","bool","nil","sel","idx","slice","call","old","un","bin","ite","forall","exists","in"
	Name string  // identifier, field, operator, callee name
	Args []*Expr // operands
	Int  int64
	Str  string
	Vars []QVar // quantifier variables
	Pos  string // file:line for messages
}

type QVar struct{ Name, Type string }

func (e *Expr) String() string {
	switch e.Op {
	case "id":
		return e.Name
	case "int":
		return strconv.FormatInt(e.Int, 10)
	case "str":
		return strconv.Quote(e.Str)
	case "bool":
		return e.Name
	case "nil":
		return "nil"
	case "sel":
		return e.Args[0].String() + "." + e.Name
	case "idx":
		return e.Args[0].String() + "[" + e.Args[1].String() + "]"
	case "slice":
		s := e.Args[0].String() + "["
		if e.Args[1] != nil {
			s += e.Args[1].String()
		}
		s += ":"
		if e.Args[2] != nil {
			s += e.Args[2].String()
		}
		return s + "]"
	case "call":
		var a []string
		for _, x := range e.Args {
			a = append(a, x.String())
		}
		return e.Name + "(" + strings.Join(a, ",") + ")"
	case "old":
		return "old(" + e.Args[0].String() + ")"
	case "un":
		return e.Name + e.Args[0].String()
	case "bin":
		return "(" + e.Args[0].String() + e.Name + e.Args[1].String() + ")"
	case "in":
		return "(" + e.Args[0].String() + " in " + e.Args[1].String() + ")"
	case "ite":
		return "(" + e.Args[0].String() + "?" + e.Args[1].String() + ":" + e.Args[2].String() + ")"
	case "forall", "exists":
		var v []string
		for _, q := range e.Vars {
			v = append(v, q.Name+" "+q.Type)
		}
		return "(" + e.Op + " " + strings.Join(v, ",") + "::" + e.Args[0].String() + ")"
	}
	return "?" + e.Op
}

type tok struct {
	kind string // "id","int","str","chr","op","eof"
	text string
	ival int64
}

type lexer struct {
	src  string
	pos  int
	toks []tok
}

func lex(src string) ([]tok, error) {
	var out []tok
	i := 0
	for i < len(src) {
		c := src[i]
		switch {
		case c == ' ' || c == '\t' || c == '\n' || c == '\r':
			i++
		case c == '-' && i+1 < len(src) && src[i+1] == '-':
			// comment to end of line
			for i < len(src) && src[i] != '\n' {
				i++
			}
		case unicode.IsLetter(rune(c)) || c == '_':
			j := i
			for j < len(src) && (unicode.IsLetter(rune(src[j])) || unicode.IsDigit(rune(src[j])) || src[j] == '_') {
				j++
			}
			out = append(out, tok{kind: "id", text: src[i:j]})
			i = j
		case c >= '0' && c <= '9':
			j := i
			for j < len(src) && (src[j] >= '0' && src[j] <= '9' || src[j] == 'x' || (src[j] >= 'a' && src[j] <= 'f') || (src[j] >= 'A' && src[j] <= 'F')) {
				j++
			}
			v, err := strconv.ParseInt(src[i:j], 0, 64)
			if err != nil {
				return nil, fmt.Errorf("bad number %q", src[i:j])
			}
			out = append(out, tok{kind: "int", text: src[i:j], ival: v})
			i = j
		case c == '"':
			j := i + 1
			for j < len(src) && src[j] != '"' {
				if src[j] == '\\' {
					j++
				}
				j++
			}
			if j >= len(src) {
				return nil, fmt.Errorf("unterminated string")
			}
			s, err := strconv.Unquote(src[i : j+1])
			if err != nil {
				return nil, fmt.Errorf("bad string %s: %v", src[i:j+1], err)
			}
			out = append(out, tok{kind: "str", text: s})
			i = j + 1
		case c == '`':
			j := i + 1
			for j < len(src) && src[j] != '`' {
				j++
			}
			if j >= len(src) {
				return nil, fmt.Errorf("unterminated raw string")
			}
			out = append(out, tok{kind: "str", text: src[i+1 : j]})
			i = j + 1
		case c == '\'':
			j := i + 1
			for j < len(src) && src[j] != '\'' {
				if src[j] == '\\' {
					j++
				}
				j++
			}
			if j >= len(src) {
				return nil, fmt.Errorf("unterminated char")
			}
			r, _, _, err := strconv.UnquoteChar(src[i+1:j], '\'')
			if err != nil {
				return nil, fmt.Errorf("bad char %s", src[i:j+1])
			}
			out = append(out, tok{kind: "int", text: src[i : j+1], ival: int64(r)})
			i = j + 1
		default:
			ops := []string{"<==>", "==>", "::", "==", "!=", "<=", ">=", "&&", "||", "+", "-", "*", "/", "%", "<", ">", "!", "(", ")", "[", "]", ",", ".", "?", ":", "=", "$", "{", "}", "#"}
			found := false
			for _, o := range ops {
				if strings.HasPrefix(src[i:], o) {
					out = append(out, tok{kind: "op", text: o})
					i += len(o)
					found = true
					break
				}
			}
			if !found {
				return nil, fmt.Errorf("unexpected character %q", c)
			}
		}
	}
	out = append(out, tok{kind: "eof"})
	return out, nil
}

type parser struct {
	toks []tok
	p    int
	pos  string
}

func (p *parser) peek() tok { return p.toks[p.p] }
func (p *parser) next() tok { t := p.toks[p.p]; p.p++; return t }
func (p *parser) isOp(s string) bool {
	t := p.peek()
	return t.kind == "op" && t.text == s
}
func (p *parser) isID(s string) bool {
	t := p.peek()
	return t.kind == "id" && t.text == s
}
func (p *parser) expectOp(s string) {
	if !p.isOp(s) {
		panic(fmt.Errorf("%s: expected %q, got %q", p.pos, s, p.peek().text))
	}
	p.p++
}
func (p *parser) ident() string {
	t := p.next()
	if t.kind != "id" {
		panic(fmt.Errorf("%s: expected identifier, got %q", p.pos, t.text))
	}
	return t.text
}

func (p *parser) mk(op string) *Expr { return &Expr{Op: op, Pos: p.pos} }

func (p *parser) expr() *Expr {
	if p.isID("forall") || p.isID("exists") {
		e := p.mk(p.next().text)
		for {
			name := p.ident()
			typ := "int"
			if p.peek().kind == "id" {
				typ = p.next().text
			}
			e.Vars = append(e.Vars, QVar{name, typ})
			if p.isOp(",") {
				p.next()
				continue
			}
			break
		}
		p.expectOp("::")
		e.Args = []*Expr{p.expr()}
		return e
	}
	return p.iff()
}

func (p *parser) iff() *Expr {
	l := p.implies()
	for p.isOp("<==>") {
		p.next()
		r := p.implies()
		e := p.mk("bin")
		e.Name = "<==>"
		e.Args = []*Expr{l, r}
		l = e
	}
	return l
}

func (p *parser) implies() *Expr {
	l := p.cond()
	if p.isOp("==>") {
		p.next()
		var r *Expr
		if p.isID("forall") || p.isID("exists") {
			r = p.expr()
		} else {
			r = p.implies()
		}
		e := p.mk("bin")
		e.Name = "==>"
		e.Args = []*Expr{l, r}
		return e
	}
	return l
}

func (p *parser) cond() *Expr {
	c := p.or()
	if p.isOp("?") {
		p.next()
		a := p.cond()
		p.expectOp(":")
		b := p.cond()
		e := p.mk("ite")
		e.Args = []*Expr{c, a, b}
		return e
	}
	return c
}

func (p *parser) binLevel(ops []string, sub func() *Expr) *Expr {
	l := sub()
	for {
		t := p.peek()
		ok := false
		if t.kind == "op" {
			for _, o := range ops {
				if t.text == o {
					ok = true
				}
			}
		}
		if !ok {
			return l
		}
		p.next()
		r := sub()
		e := p.mk("bin")
		e.Name = t.text
		e.Args = []*Expr{l, r}
		l = e
	}
}

func (p *parser) or() *Expr  { return p.binLevel([]string{"||"}, p.and) }
func (p *parser) and() *Expr { return p.binLevel([]string{"&&"}, p.cmp) }
func (p *parser) cmp() *Expr {
	l := p.add()
	for {
		t := p.peek()
		if t.kind == "op" && (t.text == "==" || t.text == "!=" || t.text == "<" || t.text == "<=" || t.text == ">" || t.text == ">=") {
			p.next()
			r := p.add()
			e := p.mk("bin")
			e.Name = t.text
			e.Args = []*Expr{l, r}
			l = e
			continue
		}
		if t.kind == "id" && t.text == "in" {
			p.next()
			r := p.add()
			e := p.mk("in")
			e.Args = []*Expr{l, r}
			l = e
			continue
		}
		return l
	}
}
func (p *parser) add() *Expr { return p.binLevel([]string{"+", "-"}, p.mul) }
func (p *parser) mul() *Expr { return p.binLevel([]string{"*", "/", "%"}, p.unary) }
func (p *parser) unary() *Expr {
	if p.isOp("!") || p.isOp("-") {
		t := p.next()
		e := p.mk("un")
		e.Name = t.text
		e.Args = []*Expr{p.unary()}
		return e
	}
	return p.postfix()
}

func (p *parser) postfix() *Expr {
	e := p.primary()
	for {
		switch {
		case p.isOp("."):
			p.next()
			s := p.mk("sel")
			s.Name = p.ident()
			s.Args = []*Expr{e}
			e = s
		case p.isOp("["):
			p.next()
			var lo, hi *Expr
			if !p.isOp(":") {
				lo = p.expr()
			}
			if p.isOp(":") {
				p.next()
				if !p.isOp("]") {
					hi = p.expr()
				}
				p.expectOp("]")
				s := p.mk("slice")
				s.Args = []*Expr{e, lo, hi}
				e = s
			} else {
				p.expectOp("]")
				s := p.mk("idx")
				s.Args = []*Expr{e, lo}
				e = s
			}
		case p.isOp("(") && (e.Op == "id" || e.Op == "sel"):
			// call: name(args) — only on plain identifiers (spec functions / builtins)
			if e.Op != "id" {
				return e
			}
			p.next()
			c := p.mk("call")
			c.Name = e.Name
			for !p.isOp(")") {
				c.Args = append(c.Args, p.expr())
				if p.isOp(",") {
					p.next()
				}
			}
			p.expectOp(")")
			if c.Name == "old" {
				if len(c.Args) != 1 {
					panic(fmt.Errorf("%s: old takes one argument", p.pos))
				}
				c.Op = "old"
			}
			e = c
		default:
			return e
		}
	}
}

func (p *parser) primary() *Expr {
	t := p.next()
	switch t.kind {
	case "int":
		e := p.mk("int")
		e.Int = t.ival
		return e
	case "str":
		e := p.mk("str")
		e.Str = t.text
		return e
	case "id":
		switch t.text {
		case "true", "false":
			e := p.mk("bool")
			e.Name = t.text
			return e
		case "nil":
			return p.mk("nil")
		}
		e := p.mk("id")
		e.Name = t.text
		return e
	case "op":
		if t.text == "(" {
			e := p.expr()
			p.expectOp(")")
			return e
		}
	}
	panic(fmt.Errorf("%s: unexpected token %q", p.pos, t.text))
}

func parseExprString(src, pos string) (e *Expr, err error) {
	toks, err := lex(src)
	if err != nil {
		return nil, fmt.Errorf("%s: %v", pos, err)
	}
	p := &parser{toks: toks, pos: pos}
	defer func() {
		if r := recover(); r != nil {
			if re, ok := r.(error); ok {
				err = re
				return
			}
			panic(r)
		}
	}()
	e = p.expr()
	if p.peek().kind != "eof" {
		return nil, fmt.Errorf("%s: trailing input at %q", pos, p.peek().text)
	}
	return e, nil
}

// ---------- declarations ----------

type Clause struct {
	Kind  string   // requires, ensures, invariant, decreases, modifies
	Tag   string   // name inside [...] after the property list
	Props []string // property ids this clause belongs to; empty = common
	Loop  int      // loop ordinal for invariant / decreases (1-based); 0 = function
	E     *Expr
	Mods  []*Expr // modifies lvalues
	Names []string // restores: ghost field names
	Free  bool     // free ensures: assumed at call sites, no obligation in the function
	Pos   string
	Src   string
}

type Contract struct {
	Key     string // e.g. smtp.Client.cmd
	Assumed bool
	Recv    string
	Params  []string
	Results []string
	Clauses []*Clause
	Pos     string
	Pure    bool // modifies nothing (declared with "pure")
	// Positional: the parameter names of the header denote the function's parameters by position (conform.go)
	Positional bool
}

type GhostField struct {
	Name string
	Type string // int | bool | string | ref | qualified Go type
}

type SpecFn struct {
	Name    string
	Params  []QVar
	Ret     string
	Body    *Expr // nil for uninterpreted
	Pos     string
	Trusted bool
}

type Axiom struct {
	Name string
	E    *Expr
	Pos  string
	Src  string
}

type AtStmt struct {
	Func   string // function key
	Anchor string // callee key + "#" + ordinal
	When   string // before | after
	Kind   string // assert | ghost
	Tag    string
	Props  []string
	LHS    *Expr
	E      *Expr
	Pos    string
	Src    string
}

type SpecSet struct {
	Ghost     map[string]*GhostField
	Fns       map[string]*SpecFn
	FnOrder   []string
	Axioms    []*Axiom
	Contracts map[string]*Contract
	Consts    map[string]int64
	Ats       []*AtStmt
	Files     []string
	Conform   map[string][]string // function type key -> properties under which in-repo implementations are checked
	ConformOnly map[string]map[int]bool // function type key -> ordinals of the ensures clauses that are obligations (nil: all)
}

func newSpecSet() *SpecSet {
	return &SpecSet{Ghost: map[string]*GhostField{}, Fns: map[string]*SpecFn{}, Contracts: map[string]*Contract{}, Consts: map[string]int64{}}
}

// logicalLines extracts the spec lines of a file.
func logicalLines(path string) ([][2]string, error) {
	data, err := os.ReadFile(path)
	if err != nil {
		return nil, err
	}
	isGo := strings.HasSuffix(path, ".go")
	var out [][2]string
	var cur, curPos string
	for i, ln := range strings.Split(string(data), "\n") {
		ln = strings.TrimRight(ln, "\r")
		t := strings.TrimSpace(ln)
		if isGo {
			if !strings.HasPrefix(t, "//@") {
				continue
			}
			t = strings.TrimSpace(t[3:])
		} else {
			t = strings.TrimPrefix(t, "//@")
			t = strings.TrimSpace(t)
		}
		if t == "" || strings.HasPrefix(t, "--") {
			continue
		}
		// strip trailing comment
		if k := strings.Index(t, " -- "); k >= 0 && !strings.Contains(t[:k], "\"") {
			t = strings.TrimSpace(t[:k])
		}
		pos := fmt.Sprintf("%s:%d", path, i+1)
		if cur != "" {
			cur += " " + t
		} else {
			cur, curPos = t, pos
		}
		if strings.HasSuffix(cur, "\\") {
			cur = strings.TrimSuffix(cur, "\\")
			continue
		}
		out = append(out, [2]string{cur, curPos})
		cur = ""
	}
	if cur != "" {
		out = append(out, [2]string{cur, curPos})
	}
	return out, nil
}

// parseTag parses an optional "[C03,C04:name]" or "[name]" prefix.
func parseTag(s string) (props []string, tag, rest string) {
	s = strings.TrimSpace(s)
	if !strings.HasPrefix(s, "[") {
		return nil, "", s
	}
	k := strings.Index(s, "]")
	if k < 0 {
		return nil, "", s
	}
	inner := s[1:k]
	rest = strings.TrimSpace(s[k+1:])
	if c := strings.Index(inner, ":"); c >= 0 {
		for _, p := range strings.Split(inner[:c], ",") {
			props = append(props, strings.TrimSpace(p))
		}
		tag = strings.TrimSpace(inner[c+1:])
	} else {
		tag = inner
	}
	return
}

// parseHeader parses "(c *Client) cmd(expectCode, format, args) (code, msg, err)".
// Types after names are accepted and ignored. key is given separately:
//
//	func smtp.Client.cmd (c) (expectCode, format, args) (code, msg, err)
//
// Simplified concrete syntax used: func KEY [recv] (params) [(results)]
func parseFuncHeader(s, pos string) (*Contract, error) {
	s = strings.TrimSpace(s)
	// KEY up to first space or '('
	k := strings.IndexAny(s, " (")
	if k < 0 {
		return &Contract{Key: s, Pos: pos}, nil
	}
	c := &Contract{Key: s[:k], Pos: pos}
	rest := strings.TrimSpace(s[k:])
	var groups [][]string
	for strings.HasPrefix(rest, "(") {
		depth, j := 0, 0
		for j = 0; j < len(rest); j++ {
			if rest[j] == '(' {
				depth++
			} else if rest[j] == ')' {
				depth--
				if depth == 0 {
					break
				}
			}
		}
		if j >= len(rest) {
			return nil, fmt.Errorf("%s: unbalanced header", pos)
		}
		inner := rest[1:j]
		var names []string
		for _, part := range splitTop(inner) {
			f := strings.Fields(part)
			if len(f) > 0 {
				names = append(names, f[0])
			}
		}
		groups = append(groups, names)
		rest = strings.TrimSpace(rest[j+1:])
	}
	if rest != "" {
		return nil, fmt.Errorf("%s: trailing text in header: %q", pos, rest)
	}
	// groups: [recv] params [results]; recv group is marked by key having a receiver: we use explicit "recv:" prefix instead
	switch len(groups) {
	case 0:
	case 1:
		c.Params = groups[0]
	case 2:
		c.Params, c.Results = groups[0], groups[1]
	case 3:
		if len(groups[0]) != 1 {
			return nil, fmt.Errorf("%s: receiver group must have one name", pos)
		}
		c.Recv, c.Params, c.Results = groups[0][0], groups[1], groups[2]
	default:
		return nil, fmt.Errorf("%s: too many groups in header", pos)
	}
	return c, nil
}

func splitTop(s string) []string {
	var out []string
	depth, start := 0, 0
	for i := 0; i < len(s); i++ {
		switch s[i] {
		case '(', '[', '{':
			depth++
		case ')', ']', '}':
			depth--
		case ',':
			if depth == 0 {
				out = append(out, s[start:i])
				start = i + 1
			}
		}
	}
	if strings.TrimSpace(s[start:]) != "" {
		out = append(out, s[start:])
	}
	return out
}

func (ss *SpecSet) loadFile(path string) error {
	lines, err := logicalLines(path)
	if err != nil {
		return err
	}
	ss.Files = append(ss.Files, path)
	var cur *Contract
	for _, lp := range lines {
		line, pos := lp[0], lp[1]
		for _, kw := range []string{"requires", "ensures", "free_ensures", "modifies", "decreases", "axiom", "restores"} {
			if strings.HasPrefix(line, kw+"[") {
				line = kw + " " + line[len(kw):]
			}
		}
		f := strings.Fields(line)
		if len(f) == 0 {
			continue
		}
		rest := func(n int) string {
			s := line
			for i := 0; i < n; i++ {
				s = strings.TrimSpace(s)
				k := strings.IndexAny(s, " \t")
				if k < 0 {
					return ""
				}
				s = s[k:]
			}
			return strings.TrimSpace(s)
		}
		switch f[0] {
		case "ghost":
			if len(f) != 4 || f[1] != "field" {
				return fmt.Errorf("%s: ghost field NAME TYPE", pos)
			}
			if _, dup := ss.Ghost[f[2]]; dup {
				return fmt.Errorf("%s: duplicate ghost field %s", pos, f[2])
			}
			ss.Ghost[f[2]] = &GhostField{Name: f[2], Type: f[3]}
			cur = nil
		case "conform":
			// conform TYPEKEY PROP... : in-repo functions converted to this function type are verified against its contract
			if len(f) < 3 {
				return fmt.Errorf("%s: conform TYPE PROP...", pos)
			}
			if ss.Conform == nil {
				ss.Conform = map[string][]string{}
			}
			// conform TYPE PROP... [ensures N...]: only the listed ensures clauses (1-based) are obligations of an
			// implementation; the others stay assumptions about it
			rest := f[2:]
			for i, w := range rest {
				if w == "ensures" {
					if ss.ConformOnly == nil {
						ss.ConformOnly = map[string]map[int]bool{}
					}
					ss.ConformOnly[f[1]] = map[int]bool{}
					for _, n := range rest[i+1:] {
						k, err := strconv.Atoi(n)
						if err != nil {
							return fmt.Errorf("%s: conform ... ensures N...", pos)
						}
						ss.ConformOnly[f[1]][k] = true
					}
					rest = rest[:i]
					break
				}
			}
			ss.Conform[f[1]] = append(ss.Conform[f[1]], rest...)
			cur = nil
		case "const":
			// const NAME = INT
			if len(f) != 4 || f[2] != "=" {
				return fmt.Errorf("%s: const NAME = INT", pos)
			}
			v, err := strconv.ParseInt(f[3], 0, 64)
			if err != nil {
				return fmt.Errorf("%s: %v", pos, err)
			}
			ss.Consts[f[1]] = v
			cur = nil
		case "ufn", "fn", "pred":
			cur = nil
			// ufn NAME(params) RET   |  fn NAME(params) RET = EXPR | pred NAME(params) = EXPR
			r := rest(1)
			lp := strings.Index(r, "(")
			if lp < 0 {
				return fmt.Errorf("%s: missing '('", pos)
			}
			name := strings.TrimSpace(r[:lp])
			depth, j := 0, lp
			for ; j < len(r); j++ {
				if r[j] == '(' {
					depth++
				} else if r[j] == ')' {
					depth--
					if depth == 0 {
						break
					}
				}
			}
			fn := &SpecFn{Name: name, Pos: pos}
			for _, part := range splitTop(r[lp+1 : j]) {
				pf := strings.Fields(part)
				if len(pf) == 1 {
					pf = append(pf, "int")
				}
				fn.Params = append(fn.Params, QVar{pf[0], pf[1]})
			}
			tail := strings.TrimSpace(r[j+1:])
			if f[0] == "pred" {
				fn.Ret = "bool"
			}
			if eq := strings.Index(tail, "="); eq >= 0 && f[0] != "ufn" {
				if t := strings.TrimSpace(tail[:eq]); t != "" {
					fn.Ret = t
				}
				e, err := parseExprString(tail[eq+1:], pos)
				if err != nil {
					return err
				}
				fn.Body = e
			} else {
				if tail != "" {
					fn.Ret = tail
				}
			}
			if fn.Ret == "" {
				fn.Ret = "int"
			}
			if f[0] == "ufn" {
				fn.Trusted = true
			}
			if _, dup := ss.Fns[name]; dup {
				return fmt.Errorf("%s: duplicate spec function %s", pos, name)
			}
			ss.Fns[name] = fn
			ss.FnOrder = append(ss.FnOrder, name)
		case "axiom":
			cur = nil
			_, tag, r := parseTag(rest(1))
			e, err := parseExprString(r, pos)
			if err != nil {
				return err
			}
			ss.Axioms = append(ss.Axioms, &Axiom{Name: tag, E: e, Pos: pos, Src: r})
		case "assume", "func":
			assumed := false
			r := rest(1)
			if f[0] == "assume" {
				if len(f) < 2 || f[1] != "func" {
					return fmt.Errorf("%s: expected 'assume func'", pos)
				}
				assumed = true
				r = rest(2)
			}
			c, err := parseFuncHeader(r, pos)
			if err != nil {
				return err
			}
			c.Assumed = assumed
			if old, dup := ss.Contracts[c.Key]; dup {
				// allow contracts to be split over several blocks (e.g. one per property)
				if old.Assumed != c.Assumed {
					return fmt.Errorf("%s: contract %s declared both assumed and verified", pos, c.Key)
				}
				if len(c.Params) > 0 || c.Recv != "" {
					if len(old.Params) == 0 && old.Recv == "" {
						old.Params, old.Recv = c.Params, c.Recv
					} else if strings.Join(old.Params, ",") != strings.Join(c.Params, ",") || old.Recv != c.Recv {
						return fmt.Errorf("%s: contract %s: parameter names differ from %s", pos, c.Key, old.Pos)
					}
				}
				if len(c.Results) > 0 {
					if len(old.Results) == 0 {
						old.Results = c.Results
					} else if strings.Join(old.Results, ",") != strings.Join(c.Results, ",") {
						return fmt.Errorf("%s: contract %s: result names differ from %s", pos, c.Key, old.Pos)
					}
				}
				cur = old
			} else {
				ss.Contracts[c.Key] = c
				cur = c
			}
		case "pure":
			if cur == nil {
				return fmt.Errorf("%s: clause outside contract", pos)
			}
			cur.Pure = true
		case "requires", "ensures", "decreases", "free_ensures":
			if cur == nil {
				return fmt.Errorf("%s: clause outside contract", pos)
			}
			props, tag, r := parseTag(rest(1))
			e, err := parseExprString(r, pos)
			if err != nil {
				return err
			}
			kind, free := f[0], false
			if kind == "free_ensures" {
				// assumed by callers, not checked in the function itself (listed as an assumption)
				kind, free = "ensures", true
			}
			cur.Clauses = append(cur.Clauses, &Clause{Kind: kind, Tag: tag, Props: props, E: e, Pos: pos, Src: r, Free: free})
		case "restores":
			// restores GHOSTFIELD, ... : on return these whole heaps equal their entry value
			if cur == nil {
				return fmt.Errorf("%s: clause outside contract", pos)
			}
			props, tag, r := parseTag(rest(1))
			cl := &Clause{Kind: "restores", Tag: tag, Props: props, Pos: pos, Src: r}
			for _, part := range splitTop(r) {
				cl.Names = append(cl.Names, strings.TrimSpace(part))
			}
			cur.Clauses = append(cur.Clauses, cl)
		case "modifies":
			if cur == nil {
				return fmt.Errorf("%s: clause outside contract", pos)
			}
			props, tag, r := parseTag(rest(1))
			cl := &Clause{Kind: "modifies", Tag: tag, Props: props, Pos: pos, Src: r}
			for _, part := range splitTop(r) {
				e, err := parseExprString(part, pos)
				if err != nil {
					return err
				}
				cl.Mods = append(cl.Mods, e)
			}
			cur.Clauses = append(cur.Clauses, cl)
		case "loop":
			if cur == nil {
				return fmt.Errorf("%s: clause outside contract", pos)
			}
			if len(f) < 4 {
				return fmt.Errorf("%s: loop N invariant EXPR", pos)
			}
			n, err := strconv.Atoi(f[1])
			if err != nil {
				return fmt.Errorf("%s: loop ordinal: %v", pos, err)
			}
			kind := f[2]
			if strings.HasPrefix(kind, "invariant") {
				kind = "invariant"
			} else if strings.HasPrefix(kind, "decreases") {
				kind = "decreases"
			} else if strings.HasPrefix(kind, "modifies") {
				kind = "loopmodifies"
			} else {
				return fmt.Errorf("%s: loop N invariant|decreases", pos)
			}
			r := rest(2)
			r = strings.TrimSpace(r[strings.IndexAny(r, "[ \t"):]) // drop keyword, keep tag
			props, tag, r2 := parseTag(r)
			e, err := parseExprString(r2, pos)
			if err != nil {
				return err
			}
			cur.Clauses = append(cur.Clauses, &Clause{Kind: kind, Tag: tag, Props: props, Loop: n, E: e, Pos: pos, Src: r2})
		case "at":
			cur = nil
			// at FUNCKEY ANCHOR before|after assert[tag] EXPR  |  ghost LHS = EXPR
			if len(f) < 5 {
				return fmt.Errorf("%s: at FUNC ANCHOR before|after assert|ghost ...", pos)
			}
			a := &AtStmt{Func: f[1], Anchor: f[2], When: f[3], Pos: pos}
			r := rest(4)
			if f[2] == "entry" {
				// at FUNC entry ghost LHS = EXPR   (no before/after)
				a.When = "entry"
				r = rest(3)
			}
			if strings.HasPrefix(r, "assert") {
				a.Kind = "assert"
				props, tag, r2 := parseTag(strings.TrimSpace(r[len("assert"):]))
				_ = tag
				a.Props, a.Tag, a.Src = props, tag, r2
				e, err := parseExprString(r2, pos)
				if err != nil {
					return err
				}
				a.E = e
			} else if strings.HasPrefix(r, "ghost") {
				a.Kind = "ghost"
				gprops, _, r2 := parseTag(strings.TrimSpace(r[len("ghost"):]))
				a.Props = gprops
				eq := strings.Index(r2, " = ")
				if eq < 0 {
					return fmt.Errorf("%s: ghost LHS = EXPR", pos)
				}
				lhs, err := parseExprString(r2[:eq], pos)
				if err != nil {
					return err
				}
				rhs, err := parseExprString(r2[eq+3:], pos)
				if err != nil {
					return err
				}
				a.LHS, a.E, a.Src = lhs, rhs, r2
			} else {
				return fmt.Errorf("%s: expected assert or ghost", pos)
			}
			ss.Ats = append(ss.Ats, a)
		default:
			return fmt.Errorf("%s: unknown declaration %q", pos, f[0])
		}
	}
	return nil
}

// propUses: property -> properties whose clauses it imports (props/Cxx.json "uses"). Imported clauses
// are visible (assumed where a clause of the property itself would be assumed) but the obligations
// they generate belong to the exporting property only, whose own check discharges them.
var propUses = map[string][]string{}

func propVisible(props []string, prop string) bool {
	if len(props) == 0 || prop == "" {
		return true
	}
	for _, p := range props {
		if p == prop {
			return true
		}
		for _, u := range propUses[prop] {
			if p == u {
				return true
			}
		}
	}
	return false
}

// visible reports whether a clause takes part in a run for property prop.
func (c *Clause) visible(prop string) bool {
	return propVisible(c.Props, prop)
}

// owned reports whether the clause is claimed by prop (tagged with it).
func (c *Clause) owned(prop string) bool {
	for _, p := range c.Props {
		if p == prop {
			return true
		}
	}
	return false
}
