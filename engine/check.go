package main

import (
	"go/token"
	"go/types"
	"crypto/sha1"
	"encoding/json"
	"flag"
	"fmt"
	"os"
	"path/filepath"
	"regexp"
	"sort"
	"strconv"
	"strings"
	"time"

	"golang.org/x/tools/go/ssa"
)

type PropConfig struct {
	Sweep  []string `json:"sweep"`  // function key globs: all safety obligations are claimed
	Verify []string `json:"verify"` // extra function key globs to put under verification
	SweepReachable []string `json:"sweep_reachable_from"` // sweep every in-repo function statically reachable from these
	Note   string   `json:"note"`
	// ForbidLookup: in the named functions, every lookup / range / update on a map of the given
	// type must provably use a key different from Key (a "reads" obligation; C06: Bcc is never read by the renderer)
	ForbidLookup []Forbid `json:"forbid_lookup"`
	// MapOrder: in the named functions, a range over a map whose body modifies one of the heaps
	// carries the obligation len(map) <= 1 (iteration order must not be observable)
	MapOrder *MapOrder `json:"map_order"`
	// GuardedBy: stores to fields of Struct need its RWMutex field Lock write-held (ghost wheld), except in
	// the exempt functions (constructors, options)
	GuardedBy []GuardedBy `json:"guarded_by"`
	// ForbidFieldRead: functions statically reachable from the entry points must not read the field (an
	// obligation "false" at every such load: the load must be unreachable)
	ForbidFieldRead []ForbidField `json:"forbid_field_read"`
	// LoopVariants: every `for` loop (not `range`) of a function under this property needs a termination argument.
	// The engine has no variant clauses yet: a loop is either listed here with the reason why it ends (reported in
	// the evidence as an assumption) or carries the obligation `termination:loopN`, which fails.
	LoopVariants map[string]string `json:"loop_variants"`
	// Termination: every loop that is not a range loop needs a proved variant (`loop N decreases E`) and every call
	// inside a call-graph cycle a proved measure (`decreases E` on both functions); see termination.go
	Termination bool `json:"termination"`
	// Uses: clauses tagged with these properties are assumed in this property's run (imports)
	Uses []string `json:"uses"`
}

type ForbidField struct {
	Struct    string   `json:"struct"`
	Field     string   `json:"field"`
	Reachable []string `json:"reachable_from"`
	// WriteLock: the field is a sync.RWMutex and what is forbidden on these paths is taking it exclusively
	// (the paths hold the read lock re-entrantly; a writer queued in between blocks the inner RLock for ever)
	WriteLock bool `json:"write_lock"`
}

type GuardedBy struct {
	Struct       string   `json:"struct"`
	Lock         string   `json:"lock"`
	Exempt       []string `json:"exempt_functions"`
	Reachable    []string `json:"reachable_from"` // only functions statically reachable from these (empty: all)
	ExemptFields []string `json:"exempt_fields"`
}

type MapOrder struct {
	Heaps     []string `json:"heaps"`
	Functions []string `json:"functions"`
}

type Forbid struct {
	MapType   string   `json:"map_type"`
	Key       string   `json:"key"`
	Functions []string `json:"functions"`
}

type LockFile struct {
	Claimed   []string          `json:"claimed"`
	Undecided map[string]string `json:"undecided"`
	Covers    []string          `json:"covers"` // cover points (fn#entry / fn#return@k) that were satisfiable
}

type KnownFinding struct {
	Property   string `json:"property"`
	Obligation string `json:"obligation"`
	What       string `json:"what"`
	Witness    string `json:"witness"`
	Status     string `json:"status"` // open | fixed:<commit>
}

type Evidence struct {
	PropertyID  string                 `json:"property_id"`
	Tier        string                 `json:"tier"`
	Seed        int                    `json:"seed"`
	Level       string                 `json:"level"`
	Coverage    map[string]interface{} `json:"coverage"`
	Assumptions []string               `json:"assumptions"`
	WallS       float64                `json:"wall_s"`
	Violations  int                    `json:"violations"`
}

func readJSON(path string, v interface{}) error {
	b, err := os.ReadFile(path)
	if err != nil {
		return err
	}
	return json.Unmarshal(b, v)
}

func (c *Ctx) functionSet(prop string, cfg *PropConfig) (fns []*ssa.Function, sweep map[string]bool) {
	sweep = map[string]bool{}
	set := map[*ssa.Function]bool{}
	all := c.allFunctions()
	for _, fn := range all {
		k := c.keyOf(fn)
		for _, pat := range cfg.Sweep {
			if globMatch(pat, k) {
				sweep[k] = true
				set[fn] = true
			}
		}
		for _, pat := range cfg.Verify {
			if globMatch(pat, k) {
				set[fn] = true
			}
		}
		if ctr := c.S.Contracts[k]; ctr != nil && !ctr.Assumed {
			for _, cl := range ctr.Clauses {
				if cl.owned(prop) {
					set[fn] = true
				}
			}
		}
	}
	if len(cfg.SweepReachable) > 0 {
		var work []*ssa.Function
		for _, fn := range all {
			for _, pat := range cfg.SweepReachable {
				if globMatch(pat, c.keyOf(fn)) {
					work = append(work, fn)
				}
			}
		}
		seen := map[*ssa.Function]bool{}
		for len(work) > 0 {
			fn := work[len(work)-1]
			work = work[:len(work)-1]
			if seen[fn] {
				continue
			}
			seen[fn] = true
			set[fn] = true
			sweep[c.keyOf(fn)] = true
			work = append(work, c.Frames.fb.static[fn]...)
			for _, a := range fn.AnonFuncs {
				work = append(work, a)
			}
		}
	}
	for _, f := range cfg.ForbidLookup {
		for _, fn := range all {
			for _, pat := range f.Functions {
				if globMatch(pat, c.keyOf(fn)) {
					set[fn] = true
				}
			}
		}
	}
	for _, ff := range cfg.ForbidFieldRead {
		scope := c.gbScope(GuardedBy{Struct: ff.Struct + "." + ff.Field, Reachable: ff.Reachable})
		for _, fn := range all {
			if !scope[c.keyOf(fn)] {
				continue
			}
			for _, b := range fn.Blocks {
				for _, in := range b.Instrs {
					if u, ok := in.(*ssa.UnOp); ok && u.Op == token.MUL {
						if fa, ok := u.X.(*ssa.FieldAddr); ok && typeKey(deref(fa.X.Type())) == ff.Struct {
							if sts, ok := deref(fa.X.Type()).Underlying().(*types.Struct); ok && sts.Field(fa.Field).Name() == ff.Field {
								set[fn] = true
							}
						}
					}
				}
			}
		}
	}
	for _, gb := range cfg.GuardedBy {
		for _, fn := range all {
			if c.gbExempt(gb, c.keyOf(fn)) {
				continue
			}
			for _, b := range fn.Blocks {
				for _, in := range b.Instrs {
					if st, ok := in.(*ssa.Store); ok {
						if fa, ok := st.Addr.(*ssa.FieldAddr); ok && typeKey(deref(fa.X.Type())) == gb.Struct {
							set[fn] = true
						}
					}
				}
			}
		}
	}
	if cfg.MapOrder != nil {
		for _, fn := range all {
			for _, pat := range cfg.MapOrder.Functions {
				if globMatch(pat, c.keyOf(fn)) {
					set[fn] = true
				}
			}
		}
	}
	for _, a := range c.S.Ats {
		for _, p := range a.Props {
			if p == prop {
				if fn := c.fnByKey(a.Func); fn != nil {
					set[fn] = true
				}
			}
		}
	}
	for fn := range set {
		fns = append(fns, fn)
	}
	sort.Slice(fns, func(i, j int) bool { return c.keyOf(fns[i]) < c.keyOf(fns[j]) })
	return
}

func (c *Ctx) allFunctions() []*ssa.Function {
	var out []*ssa.Function
	seen := map[*ssa.Function]bool{}
	var add func(fn *ssa.Function)
	add = func(fn *ssa.Function) {
		if seen[fn] {
			return
		}
		seen[fn] = true
		out = append(out, fn)
		for _, a := range fn.AnonFuncs {
			add(a)
		}
	}
	for _, fn := range c.P.RepoFns {
		add(fn)
	}
	return out
}

func (c *Ctx) keyOf(fn *ssa.Function) string {
	if k := c.P.KeyOf[fn]; k != "" {
		return k
	}
	return funcKey(fn)
}

func (c *Ctx) fnByKey(k string) *ssa.Function {
	if fn := c.P.ByKey[k]; fn != nil {
		return fn
	}
	for _, fn := range c.allFunctions() {
		if c.keyOf(fn) == k {
			return fn
		}
	}
	return nil
}

var gbReach = map[string]map[string]bool{}

func (c *Ctx) gbScope(gb GuardedBy) map[string]bool {
	k := gb.Struct + "|" + strings.Join(gb.Reachable, ",")
	if m, ok := gbReach[k]; ok {
		return m
	}
	m := map[string]bool{}
	var work []*ssa.Function
	for _, fn := range c.allFunctions() {
		for _, pat := range gb.Reachable {
			if globMatch(pat, c.keyOf(fn)) {
				work = append(work, fn)
			}
		}
	}
	seen := map[*ssa.Function]bool{}
	for len(work) > 0 {
		fn := work[len(work)-1]
		work = work[:len(work)-1]
		if seen[fn] {
			continue
		}
		seen[fn] = true
		m[c.keyOf(fn)] = true
		work = append(work, c.Frames.fb.calls[fn]...)
		for _, a := range fn.AnonFuncs {
			work = append(work, a)
		}
	}
	gbReach[k] = m
	return m
}

func (c *Ctx) gbExempt(gb GuardedBy, key string) bool {
	for _, pat := range gb.Exempt {
		if globMatch(pat, key) {
			return true
		}
	}
	if len(gb.Reachable) > 0 && !c.gbScope(gb)[key] {
		return true
	}
	return false
}

func oblRelevant(o *Obl, prop string, inSweep bool) bool {
	if o.Safety {
		return inSweep
	}
	if len(o.Props) == 0 {
		return true
	}
	for _, p := range o.Props {
		if p == prop {
			return true
		}
	}
	return false
}

var reOrd = regexp.MustCompile(`(@\d+|#\d+)+$`)

// groupName drops call-site / return-site ordinals: the lock file pins that a
// function still generates obligations for a clause, not how many sites it has
// (a refactoring may add or remove a return or a call site; every site that
// exists is still checked under its own name).
func groupName(n string) string {
	return reOrd.ReplaceAllString(n, "")
}

func hashName(s string) string {
	h := sha1.Sum([]byte(s))
	return fmt.Sprintf("%x", h[:6])
}

func cmdCheck(args []string) int {
	fs := flag.NewFlagSet("check", flag.ExitOnError)
	repo := fs.String("repo", "/repo", "")
	verif := fs.String("verif", "/verif", "")
	prop := fs.String("prop", "", "property id")
	tier := fs.String("tier", "quick", "quick|thorough")
	updateLock := fs.Bool("update-lock", false, "rewrite the lock file from this run (never used by registered commands)")
	verbose := fs.Bool("v", false, "")
	outDir := fs.String("out", "", "write evidence/, replays/, work/ below this directory instead of --verif (selftests)")
	fs.Parse(args)
	if *outDir == "" {
		*outDir = *verif
	}
	if *prop == "" {
		fmt.Fprintln(os.Stderr, "--prop required")
		return 2
	}
	t0 := time.Now()
	seed := 0
	if s := os.Getenv("VERIF_SEED"); s != "" {
		seed, _ = strconv.Atoi(s)
	}
	var cfg PropConfig
	if err := readJSON(filepath.Join(*verif, "props", *prop+".json"), &cfg); err != nil {
		fmt.Fprintln(os.Stderr, "property config:", err)
		return 2
	}
	var lock LockFile
	lockPath := filepath.Join(*verif, "locks", *prop+".json")
	if err := readJSON(lockPath, &lock); err != nil && !*updateLock {
		fmt.Fprintln(os.Stderr, "lock file:", err)
		return 2
	}
	if lock.Undecided == nil {
		lock.Undecided = map[string]string{}
	}
	var known []KnownFinding
	readJSON(filepath.Join(*verif, "known_findings.json"), &known)
	openKnown := map[string]KnownFinding{}
	for _, k := range known {
		if k.Property == *prop && k.Status == "open" {
			openKnown[k.Obligation] = k
		}
	}

	c, err := newCtx(*repo, *verif)
	if err != nil {
		fmt.Fprintln(os.Stderr, "CHECK BROKEN (load):", err)
		return 2
	}
	fns, sweep := c.functionSet(*prop, &cfg)
	if len(fns) == 0 {
		fmt.Fprintln(os.Stderr, "CHECK BROKEN: no function under verification for", *prop)
		return 2
	}
	timeout := 20
	agree := false
	if *tier == "thorough" {
		timeout, agree = 60, true
	}
	work := filepath.Join(*outDir, "work", *prop)
	os.RemoveAll(work)
	var jobs []job
	var gens []*Gen
	var genErrs []string
	usedAssumed := map[string]bool{}
	freeUsed := map[string]bool{}
	inferred := map[string]bool{}
	uncontr := map[string]bool{}
	var outOfSub []string
	nq := 0
	for _, fn := range fns {
		// a function that is new in this tree, has no contract and can be inlined is verified where it is called
		// (inline.go), not on its own: it has no preconditions to be verified under
		if c.KnownFns != nil && !c.KnownFns[funcKey(fn)] && c.S.Contracts[c.keyOf(fn)] == nil {
			probe := &Gen{P: c.P, S: c.S, knownFns: c.KnownFns}
			if probe.canInline(fn) {
				fmt.Printf("NOTE: %s is new in this tree and has no contract: verified at its call sites (inlined), not on its own\n", c.keyOf(fn))
				continue
			}
		}
		var forb []Forbid
		for _, f := range cfg.ForbidLookup {
			for _, pat := range f.Functions {
				if globMatch(pat, c.keyOf(fn)) {
					forb = append(forb, f)
				}
			}
		}
		var oh []string
		if cfg.MapOrder != nil {
			for _, pat := range cfg.MapOrder.Functions {
				if globMatch(pat, c.keyOf(fn)) {
					oh = cfg.MapOrder.Heaps
				}
			}
		}
		var gbs []GuardedBy
		for _, gb := range cfg.GuardedBy {
			if !c.gbExempt(gb, c.keyOf(fn)) {
				gbs = append(gbs, gb)
			}
		}
		var ffs []ForbidField
		for _, ff := range cfg.ForbidFieldRead {
			if c.gbScope(GuardedBy{Struct: ff.Struct + "." + ff.Field, Reachable: ff.Reachable})[c.keyOf(fn)] {
				ffs = append(ffs, ff)
			}
		}
		c.loopVariants = cfg.LoopVariants
		c.termination = cfg.Termination
		if cfg.Termination && c.termCyc == nil {
			c.termCyc = c.cyclicFns()
		}
		g, err := c.genWith(fn, *prop, forb, oh, gbs, ffs)
		if err != nil {
			genErrs = append(genErrs, err.Error())
			continue
		}
		gens = append(gens, g)
		{
			var olds []string
			for o := range g.renames {
				olds = append(olds, o)
			}
			sort.Strings(olds)
			for _, o := range olds {
				fmt.Printf("NOTE: %s: `%s` in its contracts is read as `%s` (the variable was renamed in the code)\n", g.key, o, g.renames[o])
			}
		}
		{
			seenInl := map[string]bool{}
			for _, w := range g.inlined {
				if !seenInl[w] {
					seenInl[w] = true
					fmt.Printf("NOTE: %s (a function without contract that is new in this tree) is inlined\n", w)
				}
			}
		}
		for k := range g.freeUsed {
			freeUsed[k] = true
		}
		for k := range g.usedCtr {
			if ctr := c.S.Contracts[k]; ctr != nil && ctr.Assumed {
				usedAssumed[k] = true
			}
		}
		for k := range g.inferred {
			inferred[k] = true
		}
		for k := range g.uncontr {
			uncontr[k] = true
		}
		for _, w := range g.outOfSub {
			outOfSub = append(outOfSub, g.key+": "+w)
		}
		for _, o := range g.obls {
			if !oblRelevant(o, *prop, sweep[g.key]) {
				continue
			}
			nq++
			jobs = append(jobs, job{o, o.Query(c.Spec, true), filepath.Join(work, fmt.Sprintf("%04d.smt2", nq))})
		}
	}
	if len(genErrs) > 0 && *updateLock {
		for _, e := range genErrs {
			fmt.Fprintln(os.Stderr, "CHECK BROKEN (contracts do not attach to the code):", e)
		}
		return 2
	}
	// known findings get a short timeout: they are expected not to discharge
	var normal, expectedFail []job
	for _, j := range jobs {
		if _, ok := openKnown[j.o.Name]; ok {
			expectedFail = append(expectedFail, j)
		} else if _, ok := lock.Undecided[j.o.Name]; ok {
			expectedFail = append(expectedFail, j)
		} else {
			normal = append(normal, j)
		}
	}
	// background theory must be consistent: prelude, every prelude block, every spec axiom and literal fact,
	// seeded with terms that make the quantifier patterns fire (an inconsistent axiom proves everything)
	if res, who := axiomConsistency(c.Spec, filepath.Join(work, "axioms.smt2")); res == "unsat" {
		fmt.Fprintf(os.Stderr, "CHECK BROKEN: the background axioms are inconsistent (%s answers unsat to the axioms alone)\n", who)
		return 2
	}
	tGen := time.Since(t0)
	solveAll(normal, timeout, agree, 16)
	solveAll(expectedFail, 3, false, 16)

	// cover queries (vacuity guard)
	type coverPt struct {
		name  string
		query string
		res   string
	}
	var covers []*coverPt
	for _, g := range gens {
		covers = append(covers, &coverPt{name: g.key + "#entry", query: g.CoverQuery(c.Spec, 0)})
		k := 0
		for _, b := range g.rpo {
			if len(b.Instrs) == 0 {
				continue
			}
			if _, ok := b.Instrs[len(b.Instrs)-1].(*ssa.Return); ok {
				k++
				covers = append(covers, &coverPt{name: fmt.Sprintf("%s#return@%d", g.key, k), query: g.CoverQuery(c.Spec, b.Index)})
			}
		}
	}
	{
		var cj []job
		objs := make([]*Obl, len(covers))
		for i, cp := range covers {
			objs[i] = &Obl{Name: cp.name}
			cj = append(cj, job{objs[i], cp.query, filepath.Join(work, "cover", fmt.Sprintf("%04d.smt2", i))})
		}
		solveCovers(cj, 3)
		for i, cp := range covers {
			cp.res = objs[i].Result
		}
	}

	tSolve := time.Since(t0)
	if *verbose {
		fmt.Printf("timing: load+gen %.1fs, solve+cover %.1fs\n", tGen.Seconds(), (tSolve - tGen).Seconds())
	}
	// ---- judge
	generated := map[string]*Obl{}
	for _, j := range jobs {
		generated[j.o.Name] = j.o
	}
	var fails []failure
	var knownHit []KnownFinding
	discharged, undecidedN := 0, 0
	bySolver := map[string]int{}
	solverTime := 0.0
	for _, j := range jobs {
		o := j.o
		solverTime += o.TimeS
		if o.Result == "unsat" {
			discharged++
			bySolver[o.Solver]++
			if kf, ok := openKnown[o.Name]; ok {
				fmt.Printf("NOTE: known finding no longer reproduces (obligation now discharges): %s — %s\n", kf.Obligation, kf.What)
			}
			continue
		}
		if kf, ok := openKnown[o.Name]; ok {
			knownHit = append(knownHit, kf)
			continue
		}
		if _, ok := lock.Undecided[o.Name]; ok {
			undecidedN++
			continue
		}
		fails = append(fails, failure{o.Name, o.Result, o})
	}
	if !*updateLock {
		groups := map[string]bool{}
		for n := range generated {
			groups[groupName(n)] = true
		}
		for _, n := range lock.Claimed {
			if !groups[n] {
				fails = append(fails, failure{n, "contract target missing (no obligation of this group is generated any more)", nil})
			}
		}
	}
	// a contract that no longer attaches to the code (renamed local in an invariant, removed
	// parameter, ...) is reported as a violation of that function's contract: a silently
	// detached contract is the vacuity hole to avoid (DESIGN.md 1.3)
	for _, e := range genErrs {
		fn := e
		if i := strings.Index(e, ": "); i > 0 {
			fn = e[:i]
		}
		fails = append(fails, failure{fn + "#contract-attaches", "contract target missing: " + e, nil})
	}
	var broken []string
	coverOK := map[string]bool{}
	for _, cp := range covers {
		if cp.res == "sat" {
			coverOK[cp.name] = true
		}
	}
	if !*updateLock {
		for _, n := range lock.Covers {
			found := false
			for _, cp := range covers {
				if cp.name == n {
					found = true
					if cp.res == "unsat" {
						broken = append(broken, "vacuity: "+n+" is no longer reachable under the assumed contracts")
					}
				}
			}
			_ = found
		}
	}
	if len(jobs) == 0 {
		broken = append(broken, "no obligations generated")
	}

	if *updateLock {
		nl := LockFile{Undecided: map[string]string{}}
		var refused []string
		for _, j := range jobs {
			o := j.o
			if o.Result == "unsat" {
				if !o.Safety {
					gn := groupName(o.Name)
					dup := false
					for _, x := range nl.Claimed {
						if x == gn {
							dup = true
						}
					}
					if !dup {
						nl.Claimed = append(nl.Claimed, gn)
					}
				}
			} else if _, ok := openKnown[o.Name]; !ok {
				reason := lock.Undecided[o.Name]
				if reason == "" {
					// an obligation that does not discharge is never moved to "undecided" silently: that would
					// hide every later violation of it. Give the reason in the lock file by hand first.
					refused = append(refused, o.Name+" ("+o.Result+")")
					continue
				}
				nl.Undecided[o.Name] = reason
			}
		}
		if len(refused) > 0 {
			for _, r := range refused {
				fmt.Fprintln(os.Stderr, "not discharged and not listed as undecided:", r)
			}
			fmt.Fprintln(os.Stderr, "lock file NOT written")
			return 2
		}
		for _, cp := range covers {
			if cp.res == "sat" {
				nl.Covers = append(nl.Covers, cp.name)
			}
		}
		sort.Strings(nl.Claimed)
		sort.Strings(nl.Covers)
		writeJSON(lockPath, nl)
		fmt.Printf("lock file written: %d claimed, %d undecided, %d cover points\n", len(nl.Claimed), len(nl.Undecided), len(nl.Covers))
		for _, j := range jobs {
			if j.o.Result != "unsat" {
				fmt.Printf("  %-8s %s (%s) %s\n", j.o.Result, j.o.Name, j.o.SrcPos, filepath.Base(j.file))
			}
		}
	}

	// ---- report
	for _, kf := range knownHit {
		fmt.Printf("KNOWN-FINDING: property=%s %s — %s\n", *prop, kf.Obligation, kf.What)
	}
	exit := 0
	os.MkdirAll(filepath.Join(*outDir, "replays"), 0o755)
	var violationRecords []map[string]interface{}
	if !*updateLock {
		for _, f := range fails {
			rec := map[string]interface{}{"property": *prop, "obligation": f.name, "result": f.reason}
			suffix := " no-failing-input-found"
			if f.o != nil {
				rec["source"] = f.o.SrcPos
				rec["solver"] = f.o.Solver
				rec["solver_output"] = truncate(f.o.Model, 20000)
				rec["kind"] = f.o.Kind
				if rp := tryReplay(c, *repo, *verif, *prop, f.o, rec); rp {
					suffix = ""
				}
			}
			path := filepath.Join(*outDir, "replays", fmt.Sprintf("%s-%s.json", *prop, hashName(f.name)))
			writeJSON(path, rec)
			fmt.Printf("VIOLATION property=%s replay=%s%s\n", *prop, path, suffix)
			fmt.Printf("  failed obligation: %s (%s)\n", f.name, f.reason)
			violationRecords = append(violationRecords, rec)
			exit = 1
		}
	}
	for _, b := range broken {
		fmt.Fprintln(os.Stderr, "CHECK BROKEN:", b)
		if exit == 0 {
			exit = 2
		}
	}

	// ---- evidence
	var samples []interface{}
	for i, j := range jobs {
		if i%maxInt(1, len(jobs)/12) == 0 {
			samples = append(samples, map[string]interface{}{"obligation": j.o.Name, "result": j.o.Result, "solver": j.o.Solver, "time_s": round3(j.o.TimeS), "source": j.o.SrcPos})
		}
	}
	var fnKeys []string
	for _, g := range gens {
		fnKeys = append(fnKeys, g.key)
	}
	trusted := []string{"SMT solvers z3 4.8.12 / z3 5.1.0 / cvc5 1.0 (result of the first definite answer; thorough: all three must not disagree)",
		"golang.org/x/tools v0.29.0 go/ssa as the semantics of the Go source", "goverif VC generator (/verif/engine)",
		"machine integers treated as mathematical integers (no overflow)", "single-threaded semantics (no goroutine interleaving)",
		"typed-nil pointers are not stored in interfaces", "in-repo String()/Error() methods on string-kinded types are identities"}
	for _, k := range sortedKeys(usedAssumed) {
		trusted = append(trusted, "assumed contract: "+k)
	}
	for _, n := range c.AxiomNames {
		trusted = append(trusted, "axiom: "+n)
	}
	for _, k := range sortedKeys(uncontr) {
		trusted = append(trusted, "external call without contract (results arbitrary, repo heap preserved, no panic): "+k)
	}
	for _, k := range sortedKeys(freeUsed) {
		trusted = append(trusted, "free ensures (assumed at call sites, not checked in the function): "+k)
	}
	{
		var lk []string
		for k := range cfg.LoopVariants {
			lk = append(lk, k)
		}
		sort.Strings(lk)
		for _, k := range lk {
			trusted = append(trusted, "termination of "+k+" is not proved: "+cfg.LoopVariants[k])
		}
	}
	var structLoops []string
	if cfg.Termination {
		for _, g := range gens {
			structLoops = append(structLoops, g.structLoops...)
		}
		sort.Strings(structLoops)
		trusted = append(trusted, "termination: range loops over slices, arrays, strings, maps and integers end by the semantics of Go (no obligation; listed under coverage.termination.range_loops); every other loop head carries dec obligations (variant >= 0 and strictly smaller after each back edge), every call inside a call-graph cycle a rec-dec obligation")
		trusted = append(trusted, "termination: calls that leave the repository are assumed to return; the progress of the standard library's readers is the assumed `rem` clauses of stdlib/core.spec (multipart.NewReader, Reader.NextPart, bytes.Buffer.ReadFrom) - a caller-supplied io.Reader that returns (0, nil) for ever is outside this assumption")
		trusted = append(trusted, "termination: the call graph used for cycles has static calls, CHA-resolved interface calls and parent -> closure edges; a call of a function value is not an edge")
	}
	for _, u := range cfg.Uses {
		trusted = append(trusted, "imported clauses: every requires/ensures/invariant tagged "+u+" is assumed here; those obligations are discharged by the check of "+u+" (which must pass for this result to stand)")
	}
	if cfg.MapOrder != nil {
		trusted = append(trusted, "map-order obligations use the inferred frames to decide whether a loop body writes "+strings.Join(cfg.MapOrder.Heaps, ", "))
	}
	var kfs []string
	for _, kf := range knownHit {
		kfs = append(kfs, kf.Obligation+" — "+kf.What)
	}
	var und []string
	for n, r := range lock.Undecided {
		if _, ok := generated[n]; ok {
			und = append(und, n+": "+r)
		}
	}
	sort.Strings(und)
	claimedTotal := len(jobs) - len(knownHit) - undecidedN
	ev := Evidence{PropertyID: *prop, Tier: *tier, Seed: seed, Level: "proof", WallS: round3(time.Since(t0).Seconds()), Violations: len(fails)}
	ev.Coverage = map[string]interface{}{
		"obligations":              claimedTotal,
		"discharged":               claimedTotal - len(failsGenerated(fails)),
		"checker_cmd":              fmt.Sprintf("/verif/bin/goverif check --prop %s --tier %s", *prop, *tier),
		"trusted_base":             trusted,
		"functions_under_contract": fnKeys,
		"by_solver":                bySolver,
		"solver_time_s":            round3(solverTime),
		"known_findings":           kfs,
		"undecided_not_claimed":    und,
		"inferred_frames_used_for": sortedKeys(inferred),
		"out_of_subset":            outOfSub,
		"cover_points_reachable":   len(coverOK),
		"cover_points_total":       len(covers),
		"samples":                  samples,
		"violations":               violationRecords,
		"explanation":              "each obligation is one SMT query generated from the go/ssa form of the function in /repo's working tree; a callee is represented by its contract only; loops by their invariants; unsat = discharged for all inputs",
	}
	if cfg.Termination {
		var cyc []string
		for _, g := range gens {
			if id := c.termCyc[g.fn]; id != 0 {
				cyc = append(cyc, fmt.Sprintf("%s (cycle %d)", g.key, id))
			}
		}
		sort.Strings(cyc)
		nDec := 0
		for _, j := range jobs {
			if j.o.Kind == "dec" || j.o.Kind == "rec-dec" {
				nDec++
			}
		}
		ev.Coverage["termination"] = map[string]interface{}{
			"range_loops":             structLoops,
			"functions_on_call_cycles": cyc,
			"variant_obligations":      nDec,
		}
	}
	ev.Assumptions = trusted
	writeJSON(filepath.Join(*outDir, "evidence", *prop+".json"), ev)

	fmt.Printf("%s %s: functions=%d obligations=%d discharged=%d known-findings=%d undecided(not claimed)=%d violations=%d cover=%d/%d wall=%.1fs\n",
		*prop, *tier, len(gens), len(jobs), discharged, len(knownHit), undecidedN, len(fails), len(coverOK), len(covers), time.Since(t0).Seconds())
	if *verbose {
		for _, j := range jobs {
			fmt.Printf("  %-8s %-7s %5.2fs %s (%s)\n", j.o.Result, j.o.Solver, j.o.TimeS, j.o.Name, j.o.SrcPos)
		}
	}
	return exit
}

type failure struct {
	name, reason string
	o            *Obl
}

func failsGenerated(fs []failure) []int {
	var out []int
	for i, f := range fs {
		if f.o != nil {
			out = append(out, i)
		}
	}
	return out
}

func truncate(s string, n int) string {
	if len(s) > n {
		return s[:n] + "\n...[truncated]"
	}
	return s
}

func round3(f float64) float64 { return float64(int(f*1000+0.5)) / 1000 }

func maxInt(a, b int) int {
	if a > b {
		return a
	}
	return b
}

func sortedKeys(m map[string]bool) []string {
	var out []string
	for k := range m {
		out = append(out, k)
	}
	sort.Strings(out)
	return out
}

var _ = strings.TrimSpace

// axiomConsistency asks every solver whether the background theory alone is satisfiable.
func axiomConsistency(sp *SpecPrelude, file string) (string, string) {
	var sb strings.Builder
	sb.WriteString("(set-logic ALL)\n")
	sb.WriteString(preludeCore)
	for _, b := range preludeBlocks {
		sb.WriteString(b.text)
	}
	sb.WriteString(sp.Decls)
	for _, f := range sp.LitFacts {
		fmt.Fprintf(&sb, "(assert %s)\n", f)
	}
	for _, a := range sp.Axioms {
		sb.WriteString(a.Text)
	}
	// seeds: strings, slices, byte arrays with extreme elements, concatenations, sub-strings
	sb.WriteString(`(declare-const seed.s1 Str)
(declare-const seed.s2 Str)
(declare-const seed.i Int)
(declare-const seed.a1 (Array Int Int))
(assert (>= (slen (sconcat seed.s1 seed.s2)) 0))
(assert (>= (sat (sconcat seed.s1 seed.s2) seed.i) 0))
(assert (>= (slen (ssub seed.s1 0 1)) 0))
(assert (>= (sat (ssub seed.s1 0 1) 0) 0))
(assert (>= (slen (str.of seed.a1 0 2)) 0))
(assert (>= (sat (str.of seed.a1 0 2) 1) 0))
(assert (>= (sat (str.of ((as const (Array Int Int)) 1000) 0 2) 1) 0))
(assert (>= (sat (str.of ((as const (Array Int Int)) (- 1)) 0 2) 0) 0))
(assert (>= (bit.xor seed.i 1) (- 1000000)))
`)
	sb.WriteString("(check-sat)\n")
	os.MkdirAll(filepath.Dir(file), 0o755)
	os.WriteFile(file, []byte(sb.String()), 0o644)
	ch := make(chan solveResult, len(solvers))
	for i := range solvers {
		go func(i int) { ch <- runSolver(solvers[i], file, 4) }(i)
	}
	res, who := "unknown", ""
	for range solvers {
		r := <-ch
		if r.res == "unsat" {
			res, who = "unsat", r.solver
		} else if r.res == "sat" && res != "unsat" {
			res, who = "sat", r.solver
		}
	}
	return res, who
}
