package main

import (
	"context"
	"fmt"
	"os"
	"os/exec"
	"path/filepath"
	"strings"
	"sync"
	"time"
)

type solverSpec struct {
	name string
	args func(file string, timeoutS int) []string
}

var solvers = []solverSpec{
	{"z3-new", func(f string, t int) []string { return []string{"z3-new", fmt.Sprintf("-T:%d", t), f} }},
	{"z3", func(f string, t int) []string { return []string{"z3", fmt.Sprintf("-T:%d", t), f} }},
	{"cvc5", func(f string, t int) []string {
		return []string{"cvc5", fmt.Sprintf("--tlimit=%d", t*1000), "--produce-models", f}
	}},
}

type solveResult struct {
	res    string // unsat | sat | unknown | timeout | error
	solver string
	secs   float64
	out    string
}

func runSolver(sp solverSpec, file string, timeoutS int) solveResult {
	return runSolverCtx(context.Background(), sp, file, timeoutS)
}

// raceSolvers runs all solvers at once and returns as soon as one gives a definite answer
// (the others are killed). Used after the first solver did not answer within a short slice.
func raceSolvers(file string, timeoutS int) []solveResult {
	ctx, cancel := context.WithCancel(context.Background())
	defer cancel()
	ch := make(chan solveResult, len(solvers))
	for i := range solvers {
		go func(i int) { ch <- runSolverCtx(ctx, solvers[i], file, timeoutS) }(i)
	}
	var all []solveResult
	for range solvers {
		r := <-ch
		all = append(all, r)
		if r.res == "unsat" || (r.res == "sat" && r.solver != "cvc5") {
			cancel()
			break
		}
	}
	return all
}

func runSolverCtx(parent context.Context, sp solverSpec, file string, timeoutS int) solveResult {
	t0 := time.Now()
	ctx, cancel := context.WithTimeout(parent, time.Duration(timeoutS+5)*time.Second)
	defer cancel()
	a := sp.args(file, timeoutS)
	cmd := exec.CommandContext(ctx, a[0], a[1:]...)
	out, _ := cmd.CombinedOutput()
	secs := time.Since(t0).Seconds()
	first := strings.TrimSpace(strings.SplitN(string(out), "\n", 2)[0])
	r := solveResult{solver: sp.name, secs: secs, out: string(out)}
	switch {
	case first == "unsat":
		r.res = "unsat"
	case first == "sat":
		r.res = "sat"
	case first == "unknown":
		r.res = "unknown"
	case strings.Contains(first, "timeout") || ctx.Err() != nil:
		r.res = "timeout"
	default:
		r.res = "error"
	}
	return r
}

// solveOne decides one query. Strategy: z3-new first (fast on everything we
// generate), then the other two in parallel if it does not answer definitely.
// With agree=true all three are run and a sat/unsat disagreement is an error.
func solveOne(query, file string, timeoutS int, agree bool) (solveResult, []solveResult) {
	if err := os.MkdirAll(filepath.Dir(file), 0o755); err != nil {
		return solveResult{res: "error", out: err.Error()}, nil
	}
	if err := os.WriteFile(file, []byte(query), 0o644); err != nil {
		return solveResult{res: "error", out: err.Error()}, nil
	}
	var all []solveResult
	if !agree {
		// a short slice for the solver that decides almost everything at once, then a race of all three
		slice := 2
		if timeoutS < slice {
			slice = timeoutS
		}
		r := runSolver(solvers[0], file, slice)
		all = append(all, r)
		if r.res == "unsat" || r.res == "sat" {
			return r, all
		}
		if timeoutS > slice {
			all = append(all, raceSolvers(file, timeoutS)...)
		}
	} else {
		var wg sync.WaitGroup
		rs := make([]solveResult, len(solvers))
		for i := range solvers {
			wg.Add(1)
			go func(i int) {
				defer wg.Done()
				rs[i] = runSolver(solvers[i], file, timeoutS)
			}(i)
		}
		wg.Wait()
		all = append(all, rs...)
	}
	best := all[0]
	sawSat, sawUnsat := false, false
	for _, r := range all {
		if r.res == "unsat" {
			sawUnsat = true
		}
		if r.res == "sat" {
			sawSat = true
		}
	}
	if sawSat && sawUnsat {
		return solveResult{res: "error", solver: "disagreement", out: "solvers disagree (sat vs unsat)"}, all
	}
	for _, r := range all {
		if r.res == "unsat" {
			return r, all
		}
	}
	for _, r := range all {
		if r.res == "sat" && r.solver != "cvc5" {
			return r, all
		}
	}
	for _, r := range all {
		if r.res == "sat" {
			return r, all
		}
	}
	for _, r := range all {
		if r.res == "unknown" {
			best = r
		}
	}
	return best, all
}

type job struct {
	o     *Obl
	query string
	file  string
}

func solveAll(jobs []job, timeoutS int, agree bool, workers int) {
	ch := make(chan job)
	var wg sync.WaitGroup
	for w := 0; w < workers; w++ {
		wg.Add(1)
		go func() {
			defer wg.Done()
			for j := range ch {
				r, _ := solveOne(j.query, j.file, timeoutS, agree)
				j.o.Result, j.o.Solver, j.o.TimeS = r.res, r.solver, r.secs
				if r.res == "sat" {
					j.o.Model = r.out
				} else if r.res != "unsat" {
					j.o.Model = r.out
				}
			}
		}()
	}
	for _, j := range jobs {
		ch <- j
	}
	close(ch)
	wg.Wait()
}

// solveCovers runs the (cheap) reachability queries with one solver only.
func solveCovers(jobs []job, timeoutS int) {
	ch := make(chan job)
	var wg sync.WaitGroup
	for w := 0; w < 16; w++ {
		wg.Add(1)
		go func() {
			defer wg.Done()
			for j := range ch {
				os.MkdirAll(filepath.Dir(j.file), 0o755)
				os.WriteFile(j.file, []byte(j.query), 0o644)
				r := runSolver(solvers[0], j.file, timeoutS)
				j.o.Result = r.res
			}
		}()
	}
	for _, j := range jobs {
		ch <- j
	}
	close(ch)
	wg.Wait()
}
