package main

// Inlining of functions that did not exist when the locks were written.
//
// A refactoring that extracts a helper, or replaces explicit clean-up calls by a deferred closure,
// creates an in-repo function without a contract. Calling it through an inferred frame loses what
// it does, and obligations that held before are then undecided although the code is right. Such a
// function - one whose key is not in locks/functions.json - is inlined at its call sites instead
// when it is loop-free and not recursive (its own defers run at its returns): its blocks are executed symbolically in
// the caller's context (own block guards and value names under a prefix, the caller's heap state,
// the caller's ordinals for call-site anchors), its obligations become obligations of the caller.
// Functions that existed when the locks were written are never inlined, so the verification
// conditions of the unchanged tree are not affected.

import (
	"fmt"
	"sort"

	"golang.org/x/tools/go/ssa"
)

type inlineRet struct {
	guard   string
	state   map[string]string
	results []string
}

func (g *Gen) root() *Gen {
	for g.parent != nil {
		g = g.parent
	}
	return g
}

func (g *Gen) depth() int {
	d := 0
	for p := g.parent; p != nil; p = p.parent {
		d++
	}
	return d
}

func (g *Gen) canInline(fn *ssa.Function) bool {
	r := g.root()
	if r.knownFns == nil || fn == nil || len(fn.Blocks) == 0 || !inRepoFn(fn) {
		return false
	}
	if r.knownFns[funcKey(fn)] {
		return false
	}
	if g.depth() >= 3 {
		return false
	}
	for p := g; p != nil; p = p.parent {
		if p.fn == fn {
			return false
		}
	}
	// loop-free, no goroutines
	state := map[int]int{}
	var cyclic bool
	var dfs func(b *ssa.BasicBlock)
	dfs = func(b *ssa.BasicBlock) {
		state[b.Index] = 1
		for _, s := range b.Succs {
			switch state[s.Index] {
			case 0:
				dfs(s)
			case 1:
				cyclic = true
			}
		}
		state[b.Index] = 2
	}
	dfs(fn.Blocks[0])
	if cyclic {
		return false
	}
	for _, b := range fn.Blocks {
		for _, in := range b.Instrs {
			switch x := in.(type) {
			case *ssa.Go, *ssa.Select:
				return false
			case ssa.CallInstruction:
				if b, ok := x.Common().Value.(*ssa.Builtin); ok && b.Name() == "recover" {
					return false
				}
			}
		}
	}
	return true
}

// inlineCall executes fn in the caller's context. args are the argument terms (receiver first),
// closure gives the bindings of fn's free variables, results the caller's result terms.
func (g *Gen) inlineCall(fn *ssa.Function, args []TV, closure *ssa.MakeClosure, results []TV, guard string) {
	r := g.root()
	r.ninl++
	sub := &Gen{P: g.P, S: g.S, prop: g.prop, fn: fn, key: g.key, frames: g.frames, parent: g,
		pfx: fmt.Sprintf("i%d.", r.ninl)}
	sub.heapSort = g.heapSort
	sub.strLits = g.strLits
	sub.typeIDs = g.typeIDs
	sub.globals = g.globals
	sub.allMods = g.allMods
	sub.callOrd = g.callOrd
	sub.siteOrd = g.siteOrd
	sub.atSeen = g.atSeen
	sub.usedCtr = g.usedCtr
	sub.uncontr = g.uncontr
	sub.inferred = g.inferred
	sub.freeUsed = g.freeUsed
	sub.preDecl = g.preDecl
	sub.aliasFn = g.aliasFn
	sub.forbid, sub.guardedBy, sub.forbidFields, sub.orderHeaps = g.forbid, g.guardedBy, g.forbidFields, g.orderHeaps
	sub.closures = map[ssa.Value]*ssa.MakeClosure{}
	sub.phiInit = map[*ssa.Phi]string{}
	sub.blockMod = map[int]map[string]bool{}
	sub.exit = map[int]map[string]string{}
	sub.entry = map[int]map[string]string{}
	sub.preHavoc = map[int]map[string]string{}
	sub.cur = copyState(g.cur)
	sub.pass = g.pass
	sub.bind = map[ssa.Value]TV{}
	for i, p := range fn.Params {
		if i < len(args) {
			sub.bind[p] = args[i]
		}
	}
	if closure != nil {
		for i, fv := range fn.FreeVars {
			if i < len(closure.Bindings) {
				b := closure.Bindings[i]
				sub.bind[fv] = TV{g.v(b), sortOf(b.Type()), b.Type()}
			}
		}
	}
	{
		// the caller's variables as of the call (anchored statements of the caller may sit in the callee now)
		oe := g.fnEnv(nil)
		base := oe.lookup
		blk := g.fn.Blocks[g.curBlk]
		oe.lookup = func(name string, e *Env) (TV, bool) {
			if base != nil {
				if tv, ok := base(name, e); ok {
					return tv, true
				}
			}
			return g.resolveLocalAt(name, blk, len(blk.Instrs), e)
		}
		sub.outer = oe
		sub.outerAlias = g.aliasOf
	}
	r.inlined = append(r.inlined, funcKey(fn)+" into "+g.key)
	pre := copyState(g.cur)
	sub.prepareCFG()
	sub.runInline(and(g.at(g.curBlk), guard))

	rets := sub.inlRets
	if len(rets) == 0 {
		// the call does not return
		g.guard(not(guard))
		return
	}
	seen := map[string]bool{}
	var names []string
	for _, rt := range rets {
		for n := range rt.state {
			if !seen[n] {
				seen[n] = true
				names = append(names, n)
			}
		}
	}
	sort.Strings(names)
	for _, n := range names {
		if _, ok := g.heapSort[n]; !ok {
			continue
		}
		before := g.heapIn(pre, n)
		changed := false
		chain := before
		for _, rt := range rets {
			t := g.heapIn(rt.state, n)
			if t != before {
				changed = true
			}
			chain = "(ite " + rt.guard + " " + t + " " + chain + ")"
		}
		if !changed {
			continue
		}
		v := g.newVersion(n)
		g.guard(eq(v, chain))
		g.setHeap(n, v)
	}
	for i, res := range results {
		var chain string
		for _, rt := range rets {
			if i >= len(rt.results) {
				continue
			}
			if chain == "" {
				chain = rt.results[i]
			} else {
				chain = "(ite " + rt.guard + " " + rt.results[i] + " " + chain + ")"
			}
		}
		if chain != "" {
			g.guard(implies(guard, eq(res.T, chain)))
		}
	}
	// the call returns only through one of the callee's returns
	var gs []string
	for _, rt := range rets {
		gs = append(gs, rt.guard)
	}
	g.guard(implies(guard, or(gs...)))
}

// runInline is run() for an inlined callee: no entry assumptions of its own, no contract.
func (g *Gen) runInline(entryGuard string) {
	fn := g.fn
	for _, b := range fn.Blocks {
		g.declConst(g.at(b.Index), SBool)
	}
	g.curBlk, g.curPos = 0, 0
	g.addGlobal(eq(g.at(0), entryGuard))
	reach := map[int]bool{}
	for _, b := range g.rpo {
		reach[b.Index] = true
	}
	for _, b := range fn.Blocks {
		if b.Index == 0 {
			continue
		}
		var ins []string
		if reach[b.Index] {
			for _, p := range b.Preds {
				if !reach[p.Index] {
					continue
				}
				ins = append(ins, g.taken(p, b))
			}
		}
		if len(ins) == 0 {
			g.addGlobal(not(g.at(b.Index)))
		} else {
			g.addGlobal(eq(g.at(b.Index), or(ins...)))
		}
	}
	g.entry[-1] = g.root().entry[-1] // old(...) in anchored statements means the caller's entry
	for _, b := range g.rpo {
		if b.Index != 0 {
			g.curBlk, g.curPos = b.Index, 0
			g.mergeEntry(b)
		}
		g.entry[b.Index] = copyState(g.cur)
		for _, in := range b.Instrs {
			g.instr(b, in)
		}
		g.exit[b.Index] = copyState(g.cur)
	}
}
