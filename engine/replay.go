package main

// tryReplay attempts to turn the solver's counterexample for a failed obligation
// into an input of the real code and to run it (go test -overlay). It returns
// true iff the failure was reproduced on the real code. rec is extended with
// what was tried.
func tryReplay(c *Ctx, repo, verif, prop string, o *Obl, rec map[string]interface{}) bool {
	rec["replay"] = "no replay adapter for this obligation kind"
	return false
}
