package main

// Replay of a failed obligation against the real code (DESIGN.md 1.6, as built).
//
// Two routes, tried in this order:
//  1. witness: known_findings.json names, per finding, an in-package witness test (under
//     /verif/witness). When a failing obligation belongs to a recorded finding (the defect is
//     back, or was never fixed), that test is run against the tree under check with
//     `go test -overlay` (nothing is written to the repository). A failing test is the replay.
//  2. unit: for safety obligations (bounds, slice, nil, div0, ...) of a plain function whose
//     parameters are strings, byte slices, string slices, integers or booleans, the solver's
//     model is read back with (get-value ...), turned into Go literals, and the real function is
//     called with them under recover(); a panic is the replay.
//
// Anything else is reported with the suffix no-failing-input-found (the failed obligation and the
// solver output are in the replay file).

import (
	"encoding/json"
	"fmt"
	"go/types"
	"os"
	"os/exec"
	"path/filepath"
	"regexp"
	"strconv"
	"strings"

	"golang.org/x/tools/go/ssa"
)

func goEnv() []string {
	return append(os.Environ(), "GOFLAGS=-mod=mod", "GOPROXY=off", "GOSUMDB=off", "GOTOOLCHAIN=local",
		"TEST_BASEPORT=23900", "TEST_BASEPORT_SMTP=27900")
}

// runOverlayTest injects test files into pkgDir of repo and runs the named test. It returns
// (ran, failed, output).
func runOverlayTest(repo, pkgRel string, files []string, testName string) (bool, bool, string) {
	tmp, err := os.MkdirTemp("", "replay-")
	if err != nil {
		return false, false, err.Error()
	}
	defer os.RemoveAll(tmp)
	repl := map[string]string{}
	for _, f := range files {
		abs, _ := filepath.Abs(f)
		repl[filepath.Join(repo, pkgRel, "zz_verif_"+filepath.Base(f))] = abs
	}
	ov, _ := json.Marshal(map[string]interface{}{"Replace": repl})
	ovPath := filepath.Join(tmp, "ov.json")
	os.WriteFile(ovPath, ov, 0o644)
	cmd := exec.Command("go", "test", "-overlay", ovPath, "-vet=off", "-count=1", "-timeout", "120s", "-run", "^"+testName+"$", ".")
	cmd.Dir = filepath.Join(repo, pkgRel)
	cmd.Env = append(goEnv(), "GOCACHE="+filepath.Join(tmp, "gocache"))
	out, err := cmd.CombinedOutput()
	s := string(out)
	if strings.Contains(s, "[build failed]") || strings.Contains(s, "no test files") || strings.Contains(s, "no tests to run") {
		return false, false, s
	}
	return true, err != nil, s
}

func tryReplay(c *Ctx, repo, verif, prop string, o *Obl, rec map[string]interface{}) bool {
	// 1. witness of a recorded finding
	var known []map[string]interface{}
	readJSON(filepath.Join(verif, "known_findings.json"), &known)
	base := groupName(o.Name)
	for _, k := range known {
		if k["property"] != prop {
			continue
		}
		obl, _ := k["obligation"].(string)
		if !strings.HasPrefix(obl, base) && !strings.HasPrefix(base, groupName(strings.Fields(obl + " x")[0])) {
			continue
		}
		test, _ := k["witness_test"].(string)
		if test == "" {
			continue
		}
		var files []string
		if fs, ok := k["witness_files"].([]interface{}); ok {
			for _, f := range fs {
				files = append(files, filepath.Join(verif, f.(string)))
			}
		}
		pkg, _ := k["witness_pkg"].(string)
		ran, failed, out := runOverlayTest(repo, pkg, files, test)
		rec["replay"] = map[string]interface{}{"route": "witness test of a recorded finding", "finding": k["what"], "test": test,
			"files": k["witness_files"], "ran": ran, "reproduced": failed, "output": truncate(tailLines(out, 30), 4000)}
		if ran && failed {
			return true
		}
	}
	// 1b. scenario test of a seeded change that broke the same obligation group before: the demonstration
	// written for that change (kept under /verif/seeded) is run against the tree under test
	if metas, _ := filepath.Glob(filepath.Join(verif, "seeded", "*", "meta.json")); metas != nil {
		for _, mp := range metas {
			var meta, res map[string]interface{}
			if readJSON(mp, &meta) != nil || meta["property"] != prop {
				continue
			}
			dir := filepath.Dir(mp)
			if readJSON(filepath.Join(dir, "result.json"), &res) != nil {
				continue
			}
			hit := false
			if cr, ok := meta["check_result"].(map[string]interface{}); ok {
				if fo, ok := cr["failed_obligations"].([]interface{}); ok {
					for _, f := range fo {
						if fs, ok := f.(string); ok && groupName(fs) == base {
							hit = true
						}
					}
				}
			}
			rel, _ := res["demo_rel_path"].(string)
			if !hit || rel == "" {
				continue
			}
			ran, failed, out := runOverlayTest(repo, filepath.Dir(rel), []string{filepath.Join(dir, "demo_test.go")}, "TestSeed.*")
			rec["replay"] = map[string]interface{}{"route": "scenario test of a seeded change that failed the same obligation", "seed": filepath.Base(dir),
				"change": meta["change"], "needs": meta["needs_to_manifest"], "test": "TestSeed.* in " + filepath.Join(filepath.Base(dir), "demo_test.go"),
				"ran": ran, "reproduced": failed, "output": truncate(tailLines(out, 30), 4000)}
			if ran && failed {
				return true
			}
		}
	}
	// 2. unit adapter
	if o.Safety && o.g != nil {
		if ok := unitReplay(c, repo, o, rec); ok {
			return true
		}
	}
	if _, has := rec["replay"]; !has {
		rec["replay"] = "no replay adapter applies to this obligation (kind " + o.Kind + ")"
	}
	return false
}

func tailLines(s string, n int) string {
	ls := strings.Split(strings.TrimRight(s, "\n"), "\n")
	if len(ls) > n {
		ls = ls[len(ls)-n:]
	}
	return strings.Join(ls, "\n")
}

// ---------------------------------------------------------------------------
// unit adapter

type unitParam struct {
	name string
	typ  types.Type
	kind string // string, bytes, strings, int, bool
}

func unitSignature(fn *ssa.Function) ([]unitParam, bool) {
	if fn.Signature.Recv() != nil || fn.Parent() != nil || len(fn.FreeVars) > 0 {
		return nil, false
	}
	var ps []unitParam
	for _, p := range fn.Params {
		up := unitParam{name: p.Name(), typ: p.Type()}
		switch u := p.Type().Underlying().(type) {
		case *types.Basic:
			switch {
			case u.Info()&types.IsString != 0:
				up.kind = "string"
			case u.Info()&types.IsInteger != 0:
				up.kind = "int"
			case u.Info()&types.IsBoolean != 0:
				up.kind = "bool"
			default:
				return nil, false
			}
		case *types.Slice:
			eb, ok := u.Elem().Underlying().(*types.Basic)
			if !ok {
				return nil, false
			}
			if eb.Kind() == types.Uint8 {
				up.kind = "bytes"
			} else if eb.Info()&types.IsString != 0 {
				up.kind = "strings"
			} else {
				return nil, false
			}
		default:
			return nil, false
		}
		ps = append(ps, up)
	}
	return ps, true
}

var reValue = regexp.MustCompile(`\(\s*(\(.*?\)|[^\s()]+)\s+(\(- \d+\)|-?\d+|true|false)\)`)

// getValues runs the query with a (get-value ...) request and returns term -> value.
func getValues(query string, terms []string, work string, weaken bool) (map[string]string, bool) {
	q := strings.Replace(query, "(get-model)\n", "", 1)
	if weaken {
		var keep []string
		for _, l := range strings.Split(q, "\n") {
			if strings.Contains(l, "(forall ") {
				continue
			}
			keep = append(keep, l)
		}
		q = strings.Join(keep, "\n")
	}
	q += "(get-value (" + strings.Join(terms, " ") + "))\n"
	file := filepath.Join(work, "replay.smt2")
	os.MkdirAll(work, 0o755)
	os.WriteFile(file, []byte(q), 0o644)
	out, _ := exec.Command("z3-new", "-T:10", file).CombinedOutput()
	s := string(out)
	if !strings.HasPrefix(strings.TrimSpace(s), "sat") {
		return nil, false
	}
	vals := map[string]string{}
	body := s[strings.Index(s, "\n")+1:]
	// parse pairs "(term value)" by scanning balanced parentheses
	i := strings.Index(body, "(")
	depth := 0
	start := -1
	for ; i >= 0 && i < len(body); i++ {
		switch body[i] {
		case '(':
			depth++
			if depth == 2 {
				start = i
			}
		case ')':
			if depth == 2 && start >= 0 {
				pair := body[start+1 : i]
				// value is the last token (possibly "(- n)")
				pair = strings.TrimSpace(pair)
				var term, val string
				if strings.HasSuffix(pair, ")") && strings.Contains(pair, "(- ") && strings.LastIndex(pair, "(- ") > 0 {
					k := strings.LastIndex(pair, "(- ")
					term, val = strings.TrimSpace(pair[:k]), "-"+strings.TrimSuffix(strings.TrimSpace(pair[k+3:]), ")")
				} else {
					k := strings.LastIndexAny(pair, " \n\t")
					if k > 0 {
						term, val = strings.TrimSpace(pair[:k]), strings.TrimSpace(pair[k+1:])
					}
				}
				if term != "" {
					vals[strings.Join(strings.Fields(term), " ")] = val
				}
				start = -1
			}
			depth--
		}
	}
	return vals, true
}

func norm(t string) string { return strings.Join(strings.Fields(t), " ") }

func unitReplay(c *Ctx, repo string, o *Obl, rec map[string]interface{}) bool {
	g := o.g
	fn := g.fn
	ps, ok := unitSignature(fn)
	if !ok {
		return false
	}
	query := o.Query(c.Spec, false)
	work, _ := os.MkdirTemp("", "replay-unit-")
	defer os.RemoveAll(work)
	byteHeap := "A.byte@0"
	strHeap := "A.string@0"
	// round 1: scalars and lengths
	var terms []string
	for _, p := range ps {
		sym := "p." + sym(p.name)
		switch p.kind {
		case "string":
			terms = append(terms, "(slen "+sym+")")
		case "bytes", "strings":
			terms = append(terms, "(sl_len "+sym+")")
		default:
			terms = append(terms, sym)
		}
	}
	weaken := false
	vals, sat := getValues(query, terms, work, false)
	if !sat {
		weaken = true
		vals, sat = getValues(query, terms, work, true)
	}
	if !sat {
		rec["replay"] = "unit adapter: the solver gave no model for this obligation"
		return false
	}
	lens := map[string]int{}
	for _, p := range ps {
		sym := "p." + sym(p.name)
		switch p.kind {
		case "string":
			n, _ := strconv.Atoi(vals[norm("(slen "+sym+")")])
			lens[p.name] = n
		case "bytes", "strings":
			n, _ := strconv.Atoi(vals[norm("(sl_len "+sym+")")])
			lens[p.name] = n
		}
		if lens[p.name] > 64 || lens[p.name] < 0 {
			rec["replay"] = "unit adapter: model too large to replay"
			return false
		}
	}
	// round 2: elements (the lengths are pinned so that the second model agrees with the first)
	var pins []string
	terms = nil
	for _, p := range ps {
		sym := "p." + sym(p.name)
		switch p.kind {
		case "string":
			pins = append(pins, fmt.Sprintf("(assert (= (slen %s) %d))", sym, lens[p.name]))
			for i := 0; i < lens[p.name]; i++ {
				terms = append(terms, fmt.Sprintf("(sat %s %d)", sym, i))
			}
		case "bytes":
			pins = append(pins, fmt.Sprintf("(assert (= (sl_len %s) %d))", sym, lens[p.name]))
			for i := 0; i < lens[p.name]; i++ {
				terms = append(terms, fmt.Sprintf("(select (select %s (sl_arr %s)) (+ (sl_off %s) %d))", byteHeap, sym, sym, i))
			}
		case "strings":
			pins = append(pins, fmt.Sprintf("(assert (= (sl_len %s) %d))", sym, lens[p.name]))
			for i := 0; i < lens[p.name]; i++ {
				terms = append(terms, fmt.Sprintf("(slen (select (select %s (sl_arr %s)) (+ (sl_off %s) %d)))", strHeap, sym, sym, i))
			}
		default:
			if v, ok := vals[sym]; ok {
				pins = append(pins, fmt.Sprintf("(assert (= %s %s))", sym, smtLit(v)))
			}
		}
	}
	elems := map[string]string{}
	if len(terms) > 0 {
		q2 := strings.Replace(query, "(check-sat)", strings.Join(pins, "\n")+"\n(check-sat)", 1)
		ev, ok := getValues(q2, terms, work, weaken)
		if !ok {
			rec["replay"] = "unit adapter: no model for the element values"
			return false
		}
		elems = ev
	}
	// build Go literals
	var args []string
	inputs := map[string]interface{}{}
	for _, p := range ps {
		sym := "p." + sym(p.name)
		tname := types.TypeString(p.typ, func(pk *types.Package) string {
			if pk == fn.Pkg.Pkg {
				return ""
			}
			return pk.Name()
		})
		switch p.kind {
		case "string":
			b := make([]byte, lens[p.name])
			for i := range b {
				v, _ := strconv.Atoi(elems[norm(fmt.Sprintf("(sat %s %d)", sym, i))])
				b[i] = byte(v)
			}
			args = append(args, fmt.Sprintf("%s(%q)", tname, string(b)))
			inputs[p.name] = string(b)
		case "bytes":
			b := make([]byte, lens[p.name])
			for i := range b {
				v, _ := strconv.Atoi(elems[norm(fmt.Sprintf("(select (select %s (sl_arr %s)) (+ (sl_off %s) %d))", byteHeap, sym, sym, i))])
				b[i] = byte(v)
			}
			args = append(args, fmt.Sprintf("[]byte(%q)", string(b)))
			inputs[p.name] = string(b)
		case "strings":
			var el []string
			for i := 0; i < lens[p.name]; i++ {
				n, _ := strconv.Atoi(elems[norm(fmt.Sprintf("(slen (select (select %s (sl_arr %s)) (+ (sl_off %s) %d)))", strHeap, sym, sym, i))])
				if n < 0 || n > 64 {
					n = 0
				}
				el = append(el, strconv.Quote(strings.Repeat("a", n)))
			}
			args = append(args, "[]string{"+strings.Join(el, ", ")+"}")
			inputs[p.name] = el
		case "int":
			v := vals[sym]
			args = append(args, fmt.Sprintf("%s(%s)", tname, v))
			inputs[p.name] = v
		case "bool":
			args = append(args, vals[sym])
			inputs[p.name] = vals[sym]
		}
	}
	pkgName := fn.Pkg.Pkg.Name()
	rel, _ := filepath.Rel(repoModule, fn.Pkg.Pkg.Path())
	if fn.Pkg.Pkg.Path() == repoModule {
		rel = "."
	}
	call := fn.Name() + "(" + strings.Join(args, ", ") + ")"
	nres := fn.Signature.Results().Len()
	lhs := ""
	if nres > 0 {
		lhs = strings.TrimSuffix(strings.Repeat("_, ", nres), ", ") + " = "
	}
	src := fmt.Sprintf(`package %s

import "testing"

// generated by goverif: replay of obligation %s
func TestVerifReplayUnit(t *testing.T) {
	defer func() {
		if r := recover(); r != nil {
			t.Fatalf("REPRODUCED: %%v", r)
		}
	}()
	%s%s
}
`, pkgName, o.Name, lhs, call)
	tf := filepath.Join(work, "unit_replay_test.go")
	os.WriteFile(tf, []byte(src), 0o644)
	ran, failed, out := runOverlayTest(repo, rel, []string{tf}, "TestVerifReplayUnit")
	rec["replay"] = map[string]interface{}{"route": "unit: the real function called with the model's arguments under recover()", "call": call,
		"inputs": inputs, "weakened_model_search": weaken, "ran": ran, "reproduced": failed && strings.Contains(out, "REPRODUCED"), "output": truncate(tailLines(out, 15), 3000), "test_source": src}
	if ran && failed && strings.Contains(out, "REPRODUCED") {
		return true
	}
	// The model is a counterexample of the modular VC (callees are abstracted by their contracts), so
	// it need not fail at whole-program level. For a function of one string / []byte argument, search
	// the neighbourhood: every string over a small alphabet up to length 5 (replay search only - the
	// verdict is the failed obligation).
	if len(ps) == 1 && (ps[0].kind == "string" || ps[0].kind == "bytes") {
		conv := "%s"
		if ps[0].kind == "bytes" {
			conv = "[]byte(%s)"
		} else {
			tname := types.TypeString(ps[0].typ, func(pk *types.Package) string {
				if pk == fn.Pkg.Pkg {
					return ""
				}
				return pk.Name()
			})
			conv = tname + "(%s)"
		}
		src2 := fmt.Sprintf(`package %s

import "testing"

// generated by goverif: replay search for obligation %s
func TestVerifReplaySearch(t *testing.T) {
	alphabet := []byte("a;= \"\r\n")
	var try func(s string) bool
	try = func(s string) (bad bool) {
		defer func() {
			if r := recover(); r != nil {
				t.Errorf("REPRODUCED with input %%q: %%v", s, r)
				bad = true
			}
		}()
		%s%s(%s)
		return false
	}
	var rec func(prefix string, depth int) bool
	rec = func(prefix string, depth int) bool {
		if try(prefix) {
			return true
		}
		if depth == 0 {
			return false
		}
		for _, c := range alphabet {
			if rec(prefix+string(c), depth-1) {
				return true
			}
		}
		return false
	}
	rec("", 5)
}
`, pkgName, o.Name, lhs, fn.Name(), fmt.Sprintf(conv, "s"))
		tf2 := filepath.Join(work, "unit_search_test.go")
		os.WriteFile(tf2, []byte(src2), 0o644)
		ran2, failed2, out2 := runOverlayTest(repo, rel, []string{tf2}, "TestVerifReplaySearch")
		if m, ok := rec["replay"].(map[string]interface{}); ok {
			m["search"] = map[string]interface{}{"what": "all strings over {a ; = space quote CR LF} up to length 5", "ran": ran2, "reproduced": failed2 && strings.Contains(out2, "REPRODUCED"), "output": truncate(tailLines(out2, 8), 2000)}
		}
		if ran2 && failed2 && strings.Contains(out2, "REPRODUCED") {
			return true
		}
	}
	return false
}

func smtLit(v string) string {
	if strings.HasPrefix(v, "-") {
		return "(- " + v[1:] + ")"
	}
	return v
}
