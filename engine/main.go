package main

import (
	_ "golang.org/x/tools/go/packages"
	_ "golang.org/x/tools/go/ssa"
	_ "golang.org/x/tools/go/ssa/ssautil"
	_ "golang.org/x/tools/go/ast/astutil"
)

func main() {}
