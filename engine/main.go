package main

import (
	"sync"
	"encoding/json"
	"flag"
	"fmt"
	"os"
	"path/filepath"
	"regexp"
	"sort"
	"strings"
	"time"

	"golang.org/x/tools/go/ssa"
)

// Ctx is the shared verification context of one run.
type Ctx struct {
	P          *Program
	S          *SpecSet
	Frames     *FrameInfo
	Spec       *SpecPrelude
	PreDecl    map[string]bool
	TrustedFns []string
	AxiomNames []string
	// rename tolerance (locals.go)
	Hints      map[string]*FnVars
	KnownFns   map[string]bool // in-repo function keys when the locks were written (inline.go)
	loopVariants map[string]string
	termination  bool
	ConformNotes []string
	termCyc      map[*ssa.Function]int
	aliasCache map[string]map[string]string
	aliasMu    sync.Mutex
}

func specFiles(repo, verif string) []string {
	var out []string
	matches, _ := filepath.Glob(filepath.Join(verif, "engine", "stdlib", "*.spec"))
	sort.Strings(matches)
	out = append(out, matches...)
	filepath.Walk(repo, func(p string, info os.FileInfo, err error) error {
		if err != nil {
			return nil
		}
		if info.IsDir() && (info.Name() == ".git" || info.Name() == "testdata") {
			return filepath.SkipDir
		}
		if !info.IsDir() && info.Name() == "verif_contracts.go" {
			out = append(out, p)
		}
		return nil
	})
	return out
}

func newCtx(repo, verif string) (*Ctx, error) {
	P, err := loadProgram(repo)
	if err != nil {
		return nil, err
	}
	// property imports
	if ms, _ := filepath.Glob(filepath.Join(verif, "props", "*.json")); ms != nil {
		for _, m := range ms {
			var cfg PropConfig
			if readJSON(m, &cfg) == nil && len(cfg.Uses) > 0 {
				propUses[strings.TrimSuffix(filepath.Base(m), ".json")] = cfg.Uses
			}
		}
	}
	S := newSpecSet()
	for _, f := range specFiles(repo, verif) {
		if err := S.loadFile(f); err != nil {
			return nil, err
		}
	}
	c := &Ctx{P: P, S: S, Hints: readHints(verif), KnownFns: readKnownFns(verif)}
	if err := c.buildSpecPrelude(); err != nil {
		return nil, err
	}
	c.ConformNotes = c.attachConformance()
	c.Frames = computeFrames(P, S)
	return c, nil
}

// buildSpecPrelude declares uninterpreted spec functions and asserts the axioms.
func (c *Ctx) buildSpecPrelude() (err error) {
	defer func() {
		if r := recover(); r != nil {
			if e, ok := r.(error); ok {
				err = e
				return
			}
			panic(r)
		}
	}()
	g := &Gen{P: c.P, S: c.S, heapSort: map[string]string{}, decl: map[string]string{}, globals: map[string]bool{}, typeIDs: map[string]int{},
		strLits: map[string]string{}, cur: map[string]string{}, allMods: map[string]bool{}, blockMod: map[int]map[string]bool{}, oblSeen: map[string]int{}}
	g.curBlk = -1
	var sb strings.Builder
	for _, name := range c.S.FnOrder {
		fn := c.S.Fns[name]
		if fn.Body != nil {
			continue
		}
		var ps []string
		for _, p := range fn.Params {
			s, _ := specTypeOfName(c.P, p.Type)
			ps = append(ps, string(s))
		}
		rs, _ := specTypeOfName(c.P, fn.Ret)
		fmt.Fprintf(&sb, "(declare-fun spec.%s (%s) %s)\n", name, strings.Join(ps, " "), rs)
		c.TrustedFns = append(c.TrustedFns, name)
	}
	env := &Env{g: g, vars: map[string]TV{}}
	sp := &SpecPrelude{LitFacts: map[string]string{}}
	symRe := regexp.MustCompile(`spec\.[A-Za-z0-9_]+`)
	for _, a := range c.S.Axioms {
		t := g.transBool(a.E, env)
		n := a.Name
		if n == "" {
			n = a.Pos
		}
		c.AxiomNames = append(c.AxiomNames, n)
		seen := map[string]bool{}
		var syms []string
		for _, m := range symRe.FindAllString(t, -1) {
			if !seen[m] {
				seen[m] = true
				syms = append(syms, "("+m+" ")
			}
		}
		if len(syms) == 0 {
			return fmt.Errorf("%s: axiom mentions no uninterpreted spec function", a.Pos)
		}
		sp.Axioms = append(sp.Axioms, SpecAxiom{Name: n, Text: "(assert " + t + ")\n", Syms: syms})
	}
	sb.WriteString(g.declText())
	for _, cs := range g.cons {
		if cs.blk == -2 {
			sp.LitFacts[cs.lit] = cs.text
		} else {
			fmt.Fprintf(&sb, "(assert %s)\n", cs.text)
		}
	}
	sp.Decls = sb.String()
	c.Spec = sp
	c.PreDecl = map[string]bool{}
	for n := range g.decl {
		c.PreDecl[n] = true
	}
	return nil
}

func (c *Ctx) gen(fn *ssa.Function, prop string) (*Gen, error) {
	return c.genWith(fn, prop, nil, nil, nil, nil)
}

func (c *Ctx) genWith(fn *ssa.Function, prop string, forbid []Forbid, orderHeaps []string, guarded []GuardedBy, ffs []ForbidField) (*Gen, error) {
	g := newGen(c.P, c.S, prop, fn, c.Frames)
	g.guardedBy = guarded
	g.forbidFields = ffs
	g.forbid = forbid
	g.orderHeaps = orderHeaps
	g.preDecl = c.PreDecl
	g.aliasFn = func(f *ssa.Function) map[string]string {
		c.aliasMu.Lock()
		defer c.aliasMu.Unlock()
		return c.aliasesFor(f)
	}
	g.aliasOf = g.aliasFn(fn)
	g.knownFns = c.KnownFns
	g.loopVariants = c.loopVariants
	g.termination = c.termination
	g.termCyc = c.termCyc
	if err := g.Generate(); err != nil {
		return nil, err
	}
	return g, nil
}

func globMatch(pat, s string) bool {
	re := "^" + strings.ReplaceAll(regexp.QuoteMeta(pat), `\*`, ".*") + "$"
	ok, _ := regexp.MatchString(re, s)
	return ok
}

func main() {
	if len(os.Args) < 2 {
		fmt.Fprintln(os.Stderr, "usage: goverif check|sweep|vc|list ...")
		os.Exit(2)
	}
	switch os.Args[1] {
	case "check":
		os.Exit(cmdCheck(os.Args[2:]))
	case "sweep":
		os.Exit(cmdSweep(os.Args[2:]))
	case "vc":
		os.Exit(cmdVC(os.Args[2:]))
	case "list":
		os.Exit(cmdList(os.Args[2:]))
	case "replay":
		os.Exit(cmdReplay(os.Args[2:]))
	case "loops":
		os.Exit(cmdLoops(os.Args[2:]))
	case "locals":
		// record the position-based description of the variables of every function under contract
		c, err := newCtx("/repo", "/verif")
		if err != nil {
			fmt.Fprintln(os.Stderr, err)
			os.Exit(2)
		}
		if err := writeLocals(c.P, c.S, "/verif"); err != nil {
			fmt.Fprintln(os.Stderr, err)
			os.Exit(2)
		}
		os.Exit(0)
	case "frame":
		c, err := newCtx("/repo", "/verif")
		if err != nil {
			fmt.Fprintln(os.Stderr, err)
			os.Exit(2)
		}
		for _, k := range os.Args[2:] {
			fn := c.fnByKey(k)
			if fn == nil {
				fmt.Println(k, ": no such function")
				continue
			}
			fmt.Println(k, ":")
			locs := c.Frames.locsOf(fn)
			for _, n := range c.Frames.modsOf(fn) {
				l := locs[n]
				d := ""
				if l.all {
					d = "anywhere"
				} else {
					var ps []int
					for i := range l.params {
						ps = append(ps, i)
					}
					sort.Ints(ps)
					d = fmt.Sprintf("params%v", ps)
					if l.fresh {
						d += "+fresh"
					}
				}
				fmt.Printf("   %-50s %s\n", n, d)
			}
		}
		os.Exit(0)
	}
	fmt.Fprintln(os.Stderr, "unknown command")
	os.Exit(2)
}

func cmdList(args []string) int {
	fs := flag.NewFlagSet("list", flag.ExitOnError)
	repo := fs.String("repo", "/repo", "")
	verif := fs.String("verif", "/verif", "")
	fs.Parse(args)
	c, err := newCtx(*repo, *verif)
	if err != nil {
		fmt.Fprintln(os.Stderr, err)
		return 2
	}
	for _, fn := range c.P.RepoFns {
		fmt.Println(c.P.KeyOf[fn])
	}
	return 0
}

// cmdSweep: debugging aid — run the safety sweep / all obligations of some functions.
func cmdSweep(args []string) int {
	fs := flag.NewFlagSet("sweep", flag.ExitOnError)
	repo := fs.String("repo", "/repo", "")
	verif := fs.String("verif", "/verif", "")
	prop := fs.String("prop", "", "property filter for clauses")
	timeout := fs.Int("timeout", 10, "")
	all := fs.Bool("all", false, "print discharged obligations too")
	fs.Parse(args)
	c, err := newCtx(*repo, *verif)
	if err != nil {
		fmt.Fprintln(os.Stderr, err)
		return 2
	}
	t0 := time.Now()
	var jobs []job
	work := filepath.Join(*verif, "work", "sweep")
	os.RemoveAll(work)
	n := 0
	for _, fn := range c.P.RepoFns {
		k := c.P.KeyOf[fn]
		match := false
		for _, pat := range fs.Args() {
			if globMatch(pat, k) {
				match = true
			}
		}
		if !match {
			continue
		}
		g, err := c.gen(fn, *prop)
		if err != nil {
			fmt.Println("GENERATION ERROR:", err)
			continue
		}
		for _, w := range g.outOfSub {
			fmt.Printf("out-of-subset %s: %s\n", k, w)
		}
		for _, o := range g.obls {
			n++
			jobs = append(jobs, job{o, o.Query(c.Spec, true), filepath.Join(work, fmt.Sprintf("%04d.smt2", n))})
		}
	}
	solveAll(jobs, *timeout, false, 16)
	bad := 0
	for _, j := range jobs {
		if j.o.Result != "unsat" || *all {
			fmt.Printf("%-8s %-7s %5.2fs %s  (%s) %s\n", j.o.Result, j.o.Solver, j.o.TimeS, j.o.Name, j.o.SrcPos, filepath.Base(j.file))
		}
		if j.o.Result != "unsat" {
			bad++
		}
	}
	fmt.Printf("obligations=%d discharged=%d open=%d wall=%s\n", len(jobs), len(jobs)-bad, bad, time.Since(t0).Round(time.Millisecond))
	return 0
}

func cmdVC(args []string) int {
	fs := flag.NewFlagSet("vc", flag.ExitOnError)
	repo := fs.String("repo", "/repo", "")
	verif := fs.String("verif", "/verif", "")
	prop := fs.String("prop", "", "")
	fnKey := fs.String("fn", "", "")
	obl := fs.String("obl", "", "substring of obligation name")
	fs.Parse(args)
	c, err := newCtx(*repo, *verif)
	if err != nil {
		fmt.Fprintln(os.Stderr, err)
		return 2
	}
	fn := c.P.ByKey[*fnKey]
	if fn == nil {
		fmt.Fprintln(os.Stderr, "no such function")
		return 2
	}
	g, err := c.gen(fn, *prop)
	if err != nil {
		fmt.Fprintln(os.Stderr, err)
		return 2
	}
	for _, o := range g.obls {
		if *obl == "" {
			fmt.Println(o.Name)
		} else if strings.Contains(o.Name, *obl) {
			fmt.Println(o.Query(c.Spec, true))
			return 0
		}
	}
	return 0
}

func writeJSON(path string, v interface{}) error {
	b, err := json.MarshalIndent(v, "", " ")
	if err != nil {
		return err
	}
	os.MkdirAll(filepath.Dir(path), 0o755)
	return os.WriteFile(path, append(b, '\n'), 0o644)
}

// cmdReplay re-examines a recorded violation: it prints what the replay file says, re-runs the
// property's check on the current tree and reports whether the named obligation still fails
// (exit 1) or is discharged now (exit 0).
func cmdReplay(args []string) int {
	fs := flag.NewFlagSet("replay", flag.ExitOnError)
	verif := fs.String("verif", "/verif", "")
	repo := fs.String("repo", "/repo", "")
	prop := fs.String("prop", "", "")
	file := fs.String("file", "", "")
	fs.Parse(args)
	var rec map[string]interface{}
	if err := readJSON(*file, &rec); err != nil {
		fmt.Fprintln(os.Stderr, err)
		return 2
	}
	obl, _ := rec["obligation"].(string)
	fmt.Printf("replay of %s: obligation %s (recorded result: %v)\n", *file, obl, rec["result"])
	if r, ok := rec["replay"]; ok {
		b, _ := json.MarshalIndent(r, "", " ")
		fmt.Printf("recorded replay: %s\n", truncate(string(b), 3000))
	}
	tmp, _ := os.MkdirTemp("", "goverif-replay-")
	defer os.RemoveAll(tmp)
	rc := cmdCheck([]string{"--prop", *prop, "--repo", *repo, "--verif", *verif, "--out", tmp})
	var ev Evidence
	readJSON(filepath.Join(tmp, "evidence", *prop+".json"), &ev)
	still := false
	if vs, ok := ev.Coverage["violations"].([]interface{}); ok {
		for _, v := range vs {
			if m, ok := v.(map[string]interface{}); ok && m["obligation"] == obl {
				still = true
			}
		}
	}
	if still {
		fmt.Printf("RESULT: obligation %s still fails on the current tree\n", obl)
		return 1
	}
	fmt.Printf("RESULT: obligation %s is discharged (or no longer generated) on the current tree; check exit code %d\n", obl, rc)
	return 0
}
