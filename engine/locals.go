package main

// Rename tolerance. Contracts name the receiver, parameters, captured variables and locals of the
// function they are attached to by their source names (loop invariants and anchored assertions
// cannot avoid that). A harmless rename in the code would otherwise detach a contract and the check
// would report obligations as missing. locks/locals.json records, for every function under
// contract, a position-based description of its variables as of the tree the locks were written
// for: receiver, parameters and named results by position, captured variables by position, locals
// by (type, ordinal among the locals of that type in declaration order). When a contract mentions a
// name that no longer exists in the function and the description identifies a variable that now
// carries another name, the contract is read with that variable. A note is printed; nothing else
// changes: all obligations are still generated and discharged from the current code.

import (
	"encoding/json"
	"go/ast"
	"go/types"
	"os"
	"path/filepath"
	"sort"

	"golang.org/x/tools/go/ssa"
)

type LocalVar struct {
	Name string `json:"name"`
	Type string `json:"type"`
	Ord  int    `json:"ord"`
}

type FnVars struct {
	Recv    string     `json:"recv,omitempty"`
	Params  []string   `json:"params,omitempty"`
	Results []string   `json:"results,omitempty"`
	Free    []string   `json:"free,omitempty"`
	Locals  []LocalVar `json:"locals,omitempty"`
}

func (P *Program) infoOf(fn *ssa.Function) *types.Info {
	root := fn
	for root.Parent() != nil {
		root = root.Parent()
	}
	if root.Pkg == nil {
		return nil
	}
	for _, p := range P.Pkgs {
		if p.Types == root.Pkg.Pkg {
			return p.TypesInfo
		}
	}
	return nil
}

// varsOf describes the variables of fn by position.
func (P *Program) varsOf(fn *ssa.Function) *FnVars {
	fv := &FnVars{}
	params := fn.Params
	if fn.Signature.Recv() != nil && len(params) > 0 {
		fv.Recv = params[0].Name()
		params = params[1:]
	}
	for _, p := range params {
		fv.Params = append(fv.Params, p.Name())
	}
	res := fn.Signature.Results()
	for i := 0; i < res.Len(); i++ {
		fv.Results = append(fv.Results, res.At(i).Name())
	}
	for _, f := range fn.FreeVars {
		fv.Free = append(fv.Free, f.Name())
	}
	var body *ast.BlockStmt
	switch s := fn.Syntax().(type) {
	case *ast.FuncDecl:
		body = s.Body
	case *ast.FuncLit:
		body = s.Body
	}
	info := P.infoOf(fn)
	if body == nil || info == nil {
		return fv
	}
	type decl struct {
		pos  int
		name string
		typ  string
	}
	var ds []decl
	ast.Inspect(body, func(n ast.Node) bool {
		if _, ok := n.(*ast.FuncLit); ok {
			return false // another function
		}
		id, ok := n.(*ast.Ident)
		if !ok || id.Name == "_" {
			return true
		}
		if obj, ok := info.Defs[id].(*types.Var); ok && obj != nil && !obj.IsField() {
			ds = append(ds, decl{int(id.Pos()), id.Name, types.TypeString(obj.Type(), func(p *types.Package) string { return p.Name() })})
		}
		return true
	})
	sort.Slice(ds, func(i, j int) bool { return ds[i].pos < ds[j].pos })
	count := map[string]int{}
	for _, d := range ds {
		fv.Locals = append(fv.Locals, LocalVar{d.name, d.typ, count[d.typ]})
		count[d.typ]++
	}
	return fv
}

// contractFns: the functions some contract clause or anchored statement is attached to.
func contractFns(P *Program, S *SpecSet) []string {
	seen := map[string]bool{}
	for k := range S.Contracts {
		if P.ByKey[k] != nil {
			seen[k] = true
		}
	}
	for _, a := range S.Ats {
		if P.ByKey[a.Func] != nil {
			seen[a.Func] = true
		}
	}
	var ks []string
	for k := range seen {
		ks = append(ks, k)
	}
	sort.Strings(ks)
	return ks
}

func localsPath(verif string) string { return filepath.Join(verif, "locks", "locals.json") }

func writeLocals(P *Program, S *SpecSet, verif string) error {
	out := map[string]*FnVars{}
	for _, k := range contractFns(P, S) {
		out[k] = P.varsOf(P.ByKey[k])
	}
	data, err := json.MarshalIndent(out, "", " ")
	if err != nil {
		return err
	}
	if err := os.WriteFile(localsPath(verif), append(data, '\n'), 0o644); err != nil {
		return err
	}
	// every in-repo function that exists now (functions that appear later are candidates for inlining)
	var keys []string
	for _, fn := range P.RepoFns {
		keys = append(keys, funcKey(fn))
		for _, an := range fn.AnonFuncs {
			keys = append(keys, anonKeys(an)...)
		}
	}
	sort.Strings(keys)
	data, err = json.MarshalIndent(keys, "", " ")
	if err != nil {
		return err
	}
	return os.WriteFile(filepath.Join(verif, "locks", "functions.json"), append(data, '\n'), 0o644)
}

func anonKeys(fn *ssa.Function) []string {
	ks := []string{funcKey(fn)}
	for _, an := range fn.AnonFuncs {
		ks = append(ks, anonKeys(an)...)
	}
	return ks
}

func readKnownFns(verif string) map[string]bool {
	var ks []string
	data, err := os.ReadFile(filepath.Join(verif, "locks", "functions.json"))
	if err != nil || json.Unmarshal(data, &ks) != nil || len(ks) == 0 {
		return nil
	}
	m := map[string]bool{}
	for _, k := range ks {
		m[k] = true
	}
	return m
}

// aliasesFor: old name (as recorded) -> current name, for variables of fn that were renamed.
func (c *Ctx) aliasesFor(fn *ssa.Function) map[string]string {
	if c.Hints == nil {
		return nil
	}
	key := c.P.KeyOf[fn]
	old := c.Hints[key]
	if old == nil {
		return nil
	}
	if a, ok := c.aliasCache[key]; ok {
		return a
	}
	cur := c.P.varsOf(fn)
	names := map[string]bool{} // every name the function has now
	if cur.Recv != "" {
		names[cur.Recv] = true
	}
	for _, l := range [][]string{cur.Params, cur.Results, cur.Free} {
		for _, n := range l {
			names[n] = true
		}
	}
	for _, l := range cur.Locals {
		names[l.Name] = true
	}
	al := map[string]string{}
	add := func(o, n string) {
		if o == "" || o == "_" || n == "" || n == "_" || o == n || names[o] {
			return
		}
		if _, dup := al[o]; !dup {
			al[o] = n
		}
	}
	add(old.Recv, cur.Recv)
	pos := func(o, n []string) {
		if len(o) != len(n) {
			return
		}
		for i := range o {
			add(o[i], n[i])
		}
	}
	pos(old.Params, cur.Params)
	pos(old.Results, cur.Results)
	pos(old.Free, cur.Free)
	oldNames := map[string]bool{}
	for _, l := range old.Locals {
		oldNames[l.Name] = true
	}
	for _, o := range old.Locals {
		for _, n := range cur.Locals {
			if n.Type == o.Type && n.Ord == o.Ord && !oldNames[n.Name] {
				add(o.Name, n.Name)
			}
		}
	}
	if c.aliasCache == nil {
		c.aliasCache = map[string]map[string]string{}
	}
	c.aliasCache[key] = al
	return al
}

func readHints(verif string) map[string]*FnVars {
	var h map[string]*FnVars
	data, err := os.ReadFile(localsPath(verif))
	if err != nil {
		return nil
	}
	if json.Unmarshal(data, &h) != nil {
		return nil
	}
	return h
}
