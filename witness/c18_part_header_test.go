package mail

import (
	"bytes"
	"strings"
	"testing"
)

// C18 (open finding): the header lines of a MIME part at nesting depth > 0 are written by
// multipart.Writer.CreatePart, which does not fold. A part description or a file name with blanks that is
// longer than the limit therefore produces a header line of more than 78 characters that is not a single
// token. (At depth 0 the same headers go through writeHeader and are folded.)
func verifLongHeaderLines(t *testing.T, out string) []string {
	t.Helper()
	var bad []string
	inHeader := true
	for _, line := range strings.Split(out, "\r\n") {
		if strings.HasPrefix(line, "--") {
			inHeader = true
			continue
		}
		if line == "" {
			inHeader = false
			continue
		}
		if !inHeader {
			continue
		}
		if len(line) <= 78 {
			continue
		}
		// "Key: token" and " token" (a continuation line) are single tokens that cannot be folded
		rest := line
		if i := strings.Index(line, ": "); i > 0 && !strings.ContainsAny(line[:i], " \t") {
			rest = line[i+2:]
		}
		rest = strings.TrimLeft(rest, " ")
		if strings.ContainsAny(rest, " \t") {
			bad = append(bad, line)
		}
	}
	return bad
}

func TestVerifWitnessC18PartDescriptionUnfolded(t *testing.T) {
	m := NewMsg()
	_ = m.From("a@b.c")
	_ = m.To("d@e.f")
	m.Subject("s")
	m.SetBodyString(TypeTextPlain, "hello", WithPartContentDescription(strings.Repeat("word ", 30)+"end"))
	m.AddAlternativeString(TypeTextHTML, "<p>hello</p>")
	out := &bytes.Buffer{}
	if _, err := m.WriteTo(out); err != nil {
		t.Fatal(err)
	}
	if bad := verifLongHeaderLines(t, out.String()); len(bad) > 0 {
		t.Errorf("header lines longer than 78 characters that are not a single token:\n%s", strings.Join(bad, "\n"))
	}
}

func TestVerifWitnessC18FileNameUnfolded(t *testing.T) {
	m := NewMsg()
	_ = m.From("a@b.c")
	_ = m.To("d@e.f")
	m.Subject("s")
	m.SetBodyString(TypeTextPlain, "hello")
	_ = m.AttachReader(strings.Repeat("name ", 20)+"x.txt", strings.NewReader("content"))
	out := &bytes.Buffer{}
	if _, err := m.WriteTo(out); err != nil {
		t.Fatal(err)
	}
	if bad := verifLongHeaderLines(t, out.String()); len(bad) > 0 {
		t.Errorf("header lines longer than 78 characters that are not a single token:\n%s", strings.Join(bad, "\n"))
	}
}

// control: the same values at depth 0 (no multipart) are folded
func TestVerifWitnessC18DepthZeroFolded(t *testing.T) {
	m := NewMsg()
	_ = m.From("a@b.c")
	_ = m.To("d@e.f")
	m.Subject("s")
	m.SetBodyString(TypeTextPlain, "hello", WithPartContentDescription(strings.Repeat("word ", 30)+"end"))
	out := &bytes.Buffer{}
	if _, err := m.WriteTo(out); err != nil {
		t.Fatal(err)
	}
	if bad := verifLongHeaderLines(t, out.String()); len(bad) > 0 {
		t.Errorf("depth 0: header lines longer than 78 characters that are not a single token:\n%s", strings.Join(bad, "\n"))
	}
}

func TestVerifWitnessC18FileDescriptionUnfolded(t *testing.T) {
	m := NewMsg()
	_ = m.From("a@b.c")
	_ = m.To("d@e.f")
	m.Subject("s")
	m.SetBodyString(TypeTextPlain, "hello")
	_ = m.AttachReader("x.txt", strings.NewReader("content"), WithFileDescription(strings.Repeat("word ", 30)+"end"))
	out := &bytes.Buffer{}
	if _, err := m.WriteTo(out); err != nil {
		t.Fatal(err)
	}
	if bad := verifLongHeaderLines(t, out.String()); len(bad) > 0 {
		t.Errorf("header lines longer than 78 characters that are not a single token:\n%s", strings.Join(bad, "\n"))
	}
}
