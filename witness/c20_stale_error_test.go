package mail

import "testing"

// C20 (at[no-stale-error] in SendWithSMTPClient): a message that failed in an earlier Send and is
// delivered by the next one still reports the old error.
func TestVerifWitnessC20StaleError(t *testing.T) {
	srv := &vServer{Greeting: "220 ready\r\n", Respond: func(v, l string, n int) string {
		if v == "MAIL" && n == 0 {
			return "451 4.3.0 try again later\r\n"
		}
		return vOK(v, l, n)
	}}
	c := vClient(t, srv)
	m := vMsg("d@e.f")
	if err := c.Send(m); err == nil {
		t.Fatal("first Send should fail")
	}
	if err := c.Send(m); err != nil {
		t.Fatalf("second Send should succeed: %v", err)
	}
	if !m.IsDelivered() {
		t.Fatal("message not delivered")
	}
	if m.HasSendError() {
		t.Errorf("message was delivered by the second Send but still carries the error of the first: %v", m.SendError())
	}
	_ = c.Close()
}

// C20 (post[temp-iff-4yz-of-the-reply]@sendSingleMsg, RSET step): the message is delivered, the RSET that
// follows is answered 451. ResetWithSMTPClient wraps the reply error and isTempError looked at the first
// byte of the wrapping text, so the 4yz reply was reported as not temporary (its code, taken from the
// unwrapped error, was right).
func TestVerifWitnessC20ResetTemporary(t *testing.T) {
	srv := &vServer{Greeting: "220 ready\r\n", Respond: func(v, l string, n int) string {
		if v == "RSET" {
			return "451 4.3.0 busy\r\n"
		}
		return vOK(v, l, n)
	}}
	c := vClient(t, srv)
	m := vMsg("d@e.f")
	err := c.Send(m)
	if err == nil {
		t.Fatal("Send should report the failed RSET")
	}
	se, ok := m.SendError().(*SendError)
	if !ok || se == nil {
		t.Fatalf("no SendError on the message: %v", m.SendError())
	}
	if se.ErrorCode() != 451 {
		t.Errorf("error code is %d, the reply was 451", se.ErrorCode())
	}
	if !se.IsTemp() {
		t.Errorf("reply 451 to RSET is reported as not temporary")
	}
	_ = c.Close()
}
