package mail

import "testing"

// C20 (at[no-stale-error] in SendWithSMTPClient): a message that failed in an earlier Send and is
// delivered by the next one still reports the old error.
func TestVerifWitnessC20StaleError(t *testing.T) {
	srv := &vServer{Greeting: "220 ready\r\n", Respond: func(v, l string, n int) string {
		if v == "MAIL" && n == 0 {
			return "451 4.3.0 try again later\r\n"
		}
		return vOK(v, l, n)
	}}
	c := vClient(t, srv)
	m := vMsg("d@e.f")
	if err := c.Send(m); err == nil {
		t.Fatal("first Send should fail")
	}
	if err := c.Send(m); err != nil {
		t.Fatalf("second Send should succeed: %v", err)
	}
	if !m.IsDelivered() {
		t.Fatal("message not delivered")
	}
	if m.HasSendError() {
		t.Errorf("message was delivered by the second Send but still carries the error of the first: %v", m.SendError())
	}
	_ = c.Close()
}
