package mail

import (
	"errors"
	"regexp"
	"testing"
)

// C20: the enhanced status code is exposed if and only if the server advertised ENHANCEDSTATUSCODES and the
// reply began with one. enhancedStatusCode searched the whole reply text: an address or version number further
// on ("550 relaying denied for 10.2.3.4") was reported as the enhanced status code "2.3.4".
func TestVerifWitnessC20ESCOnlyAtStart(t *testing.T) {
	for _, reply := range []string{
		"550 relaying denied for 10.2.3.4",
		"554 rejected by policy 4.7.1 of this site",
		"451 try again later, see section 5.1.2",
	} {
		if got := enhancedStatusCode(errors.New(reply), true); got != "" {
			t.Errorf("reply %q does not begin with an enhanced status code, got %q", reply, got)
		}
	}
	if got := enhancedStatusCode(errors.New("550 5.1.1 no such user"), true); got != "5.1.1" {
		t.Errorf("reply beginning with 5.1.1: got %q", got)
	}
	if got := enhancedStatusCode(errors.New("550 5.1.1"), true); got != "5.1.1" {
		t.Errorf("bare reply 550 5.1.1: got %q", got)
	}
}

// BOUNDED stand-in (not a proof): enhancedStatusCode against an independent reading of RFC 2034 / RFC 3463 for
// every reply "<code> <text>" with code in {250, 451, 550} and text over the alphabet {2 4 5 1 . space x} up to
// length 7 (6^0 + … + 7^7 texts per code).
func TestVerifBoundedC20ESC(t *testing.T) {
	alphabet := []byte("2451. x")
	spec := regexp.MustCompile(`^[245]\.[0-9]{1,3}\.[0-9]{1,3}`)
	want := func(text string) string {
		m := spec.FindString(text)
		if m == "" {
			return ""
		}
		// the class.subject.detail token must end there
		if len(text) > len(m) {
			c := text[len(m)]
			if (c >= '0' && c <= '9') || (c >= 'a' && c <= 'z') || (c >= 'A' && c <= 'Z') || c == '_' {
				return ""
			}
		}
		return m
	}
	checked := 0
	var rec func(prefix []byte, depth int)
	rec = func(prefix []byte, depth int) {
		for _, code := range []string{"250", "451", "550"} {
			reply := code + " " + string(prefix)
			got := enhancedStatusCode(errors.New(reply), true)
			if w := want(string(prefix)); got != w {
				t.Fatalf("reply %q: enhanced status code %q, want %q", reply, got, w)
			}
			checked++
		}
		if depth == 7 {
			return
		}
		for _, c := range alphabet {
			rec(append(prefix, c), depth+1)
		}
	}
	rec(nil, 0)
	t.Logf("bounded: %d replies checked", checked)
}
