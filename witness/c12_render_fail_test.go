package mail

import (
	"bytes"
	"errors"
	"io"
	"testing"
)

type vFailOnce struct {
	n      int // fail the n-th Write (1-based), succeed otherwise
	calls  int
	failed bool
}

func (w *vFailOnce) Write(p []byte) (int, error) {
	w.calls++
	if w.calls == w.n {
		w.failed = true
		return 0, errors.New("transient sink failure")
	}
	return len(p), nil
}

// C12 (pre[part-writer]@writePart->writeBody): the sink fails while the part header of an
// alternative part is written; CreatePart returns a nil writer and writeBody uses it anyway.
func TestVerifWitnessC12NilPartWriter(t *testing.T) {
	for n := 1; n <= 40; n++ {
		m := NewMsg()
		_ = m.From("a@b.c")
		_ = m.To("d@e.f")
		m.SetBodyString(TypeTextPlain, "plain")
		m.AddAlternativeString(TypeTextHTML, "<p>html</p>")
		w := &vFailOnce{n: n}
		func() {
			defer func() {
				if r := recover(); r != nil {
					t.Errorf("sink failing at write #%d: WriteTo panicked: %v", n, r)
				}
			}()
			_, err := m.WriteTo(w)
			if w.failed && err == nil {
				t.Errorf("sink failing at write #%d: WriteTo returned a nil error", n)
			}
		}()
	}
}

// C12 (post[sticky]@startMP): with a caller-set boundary, SetBoundary's nil result overwrites
// an error recorded earlier, and WriteTo reports success although the sink lost data.
func TestVerifWitnessC12BoundaryErasesError(t *testing.T) {
	for n := 1; n <= 12; n++ {
		m := NewMsg(WithBoundary("fixedboundary"))
		_ = m.From("a@b.c")
		_ = m.To("d@e.f")
		m.SetBodyString(TypeTextPlain, "plain")
		m.AddAlternativeString(TypeTextHTML, "<p>html</p>")
		w := &vFailOnce{n: n}
		var err error
		func() {
			defer func() { _ = recover() }()
			_, err = m.WriteTo(w)
		}()
		if w.failed && err == nil {
			t.Errorf("sink failed at write #%d but WriteTo returned nil", n)
		}
	}
}

var _ io.Writer = (*vFailOnce)(nil)

// C12 (post[count]@writeBody, default branch at depth 0): a single-part message with a 7bit body is
// written through a quoted-printable writer that sits directly on the destination, so its bytes are
// not counted: WriteTo reports fewer bytes than the destination accepted.
func TestVerifWitnessC12CountSevenBit(t *testing.T) {
	m := NewMsg(WithEncoding(EncodingUSASCII))
	_ = m.From("a@b.c")
	_ = m.To("d@e.f")
	m.SetBodyString(TypeTextPlain, "hello world, this is the body")
	buf := &bytes.Buffer{}
	n, err := m.WriteTo(buf)
	if err != nil {
		t.Fatal(err)
	}
	if n != int64(buf.Len()) {
		t.Errorf("WriteTo reports %d bytes, the destination accepted %d", n, buf.Len())
	}
}

// C12: a producer that fails while the message is rendered for signing (S/MIME pre-render inside WriteTo) and
// works afterwards. The pre-render's error was dropped: WriteTo signed the truncated rendering and reported
// success.
func TestVerifWitnessC12PreRenderProducerFailure(t *testing.T) {
	keypair, err := getDummyKeyPairTLS()
	if err != nil {
		t.Fatal(err)
	}
	m := NewMsg()
	_ = m.From("a@b.c")
	_ = m.To("d@e.f")
	m.Subject("s")
	calls := 0
	m.SetBodyWriter(TypeTextPlain, func(w io.Writer) (int64, error) {
		calls++
		if calls == 1 {
			return 0, errors.New("producer failed")
		}
		n, werr := w.Write([]byte("hello"))
		return int64(n), werr
	})
	if err = m.SignWithTLSCertificate(keypair); err != nil {
		t.Fatal(err)
	}
	out := &bytes.Buffer{}
	_, err = m.WriteTo(out)
	if err == nil {
		t.Errorf("a body producer failed during WriteTo (call 1 of %d) and WriteTo reported success", calls)
	}
}
