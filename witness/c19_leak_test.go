package mail

import (
	"context"
	"testing"
	"time"
)

// Witnesses for C19: the transport stays open after DialWithContext fails.
func TestVerifWitnessC19Dial(t *testing.T) {
	cases := []struct {
		name string
		opts []Option
		resp func(verb, line string, n int) string
	}{
		{"rejected EHLO and HELO (post[noleak]@return after Hello)", []Option{WithTLSPolicy(NoTLS)}, func(v, l string, n int) string {
			if v == "EHLO" || v == "HELO" {
				return "554 go away\r\n"
			}
			return vOK(v, l, n)
		}},
		{"STARTTLS not offered under TLSMandatory (post[noleak]@return after tls)", nil, vOK},
		{"AUTH not offered (post[noleak]@return after auth)", []Option{WithTLSPolicy(NoTLS), WithSMTPAuth(SMTPAuthPlain), WithUsername("u"), WithPassword("p")}, vOK},
	}
	for _, tc := range cases {
		srv := &vServer{Greeting: "220 ready\r\n", Respond: tc.resp}
		opts := append([]Option{WithDialContextFunc(srv.Dial()), WithTimeout(2 * time.Second)}, tc.opts...)
		c, err := NewClient("mail.example.com", opts...)
		if err != nil {
			t.Fatal(err)
		}
		derr := c.DialWithContext(context.Background())
		if derr == nil {
			t.Errorf("%s: dial unexpectedly succeeded", tc.name)
			continue
		}
		time.Sleep(50 * time.Millisecond)
		if n := srv.OpenConns(); n != 0 {
			t.Errorf("%s: DialWithContext returned %v and left %d connection(s) open", tc.name, derr, n)
		}
	}
}

// Witness for C19: a QUIT that is not answered with 221 leaves the transport open,
// also at the end of DialAndSend.
func TestVerifWitnessC19Quit(t *testing.T) {
	srv := &vServer{Greeting: "220 ready\r\n", Respond: func(v, l string, n int) string {
		if v == "QUIT" {
			return "500 no\r\n"
		}
		return vOK(v, l, n)
	}}
	c, err := NewClient("mail.example.com", WithDialContextFunc(srv.Dial()), WithTLSPolicy(NoTLS), WithTimeout(2*time.Second))
	if err != nil {
		t.Fatal(err)
	}
	m := NewMsg()
	_ = m.From("a@b.c")
	_ = m.To("d@e.f")
	m.SetBodyString(TypeTextPlain, "x")
	derr := c.DialAndSend(m)
	time.Sleep(50 * time.Millisecond)
	if n := srv.OpenConns(); n != 0 {
		t.Errorf("DialAndSend returned %v and left %d connection(s) open", derr, n)
	}
}
