package mail

import (
	"context"
	"crypto/hmac"
	"crypto/sha256"
	"encoding/base64"
	"strings"
	"testing"
	"time"
)

func vScramClient(t *testing.T, srv *vServer) *Client {
	c, err := NewClient("mail.example.com", WithDialContextFunc(srv.Dial()), WithTLSPolicy(NoTLS), WithTimeout(2*time.Second),
		WithSMTPAuth(SMTPAuthSCRAMSHA256), WithUsername("user"), WithPassword("correct horse"))
	if err != nil {
		t.Fatal(err)
	}
	return c
}

func vEhloAuth(v, l string, n int) string {
	if v == "EHLO" {
		return "250-localhost\r\n250 AUTH SCRAM-SHA-256\r\n"
	}
	return vOK(v, l, n)
}

// C15 (obligation smtp.scramAuth.Next#post[success-means-verified]): the server answers the
// AUTH command with a bare 235 - no server-first, no server-final - and is accepted.
func TestVerifWitnessC15Bare235(t *testing.T) {
	srv := &vServer{Greeting: "220 ready\r\n", Respond: func(v, l string, n int) string {
		if v == "AUTH" {
			return "235 2.7.0 welcome, whoever you are\r\n"
		}
		return vEhloAuth(v, l, n)
	}}
	c := vScramClient(t, srv)
	if err := c.DialWithContext(context.Background()); err == nil {
		t.Errorf("SCRAM-SHA-256 reported success although the server never proved knowledge of the password (bare 235)")
	}
}

// C15 (obligation smtp.scramAuth.handleServerValidationMessage#post[verified]): a server-final
// message computed over the empty exchange state (no salt, no auth message) is accepted and
// acknowledged before any server-first message was seen.
func TestVerifWitnessC15EmptyStateSignature(t *testing.T) {
	mac := hmac.New(sha256.New, nil)
	mac.Write([]byte("Server Key"))
	serverKey := mac.Sum(nil)
	mac = hmac.New(sha256.New, serverKey)
	sig := base64.StdEncoding.EncodeToString(mac.Sum(nil))
	final := base64.StdEncoding.EncodeToString([]byte("v=" + sig))
	step := 0
	acked := false
	srv := &vServer{Greeting: "220 ready\r\n", Respond: func(v, l string, n int) string {
		if v == "AUTH" {
			step = 1
			return "334 " + final + "\r\n"
		}
		if v == "OTHER" && step == 1 {
			step = 2
			acked = strings.TrimSpace(l) == ""
			return "235 2.7.0 ok\r\n"
		}
		return vEhloAuth(v, l, n)
	}}
	c := vScramClient(t, srv)
	err := c.DialWithContext(context.Background())
	if err == nil || acked {
		t.Errorf("a server signature over the empty exchange state was accepted (acknowledged=%v, dial error=%v)", acked, err)
	}
}
