package mail

import (
	"context"
	"strings"
	"testing"
)

// C05: addresses whose local part needs quoting are put between the angle brackets unquoted;
// a blank or '>' in them adds arguments / ESMTP parameters to the command line.
func TestVerifWitnessC05Path(t *testing.T) {
	srv := &vServer{Greeting: "220 ready\r\n", Respond: vOK}
	c := vClient(t, srv)
	m := NewMsg()
	if err := m.From(`"a> SIZE=1"@b.c`); err != nil {
		t.Skip("setter refuses the address")
	}
	if err := m.To(`"x y"@e.f`); err != nil {
		t.Skip("setter refuses the address")
	}
	m.SetBodyString(TypeTextPlain, "x")
	_ = c.Send(m)
	_ = c.Close()
	for _, l := range srv.Commands {
		u := strings.ToUpper(l)
		if strings.HasPrefix(u, "MAIL FROM:") || strings.HasPrefix(u, "RCPT TO:") {
			lt, gt := strings.Index(l, "<"), strings.Index(l, ">")
			path := l[lt+1 : gt]
			if strings.ContainsAny(path, " \t<>") || !strings.Contains(path, "@") {
				t.Errorf("command %q: the path %q is not the mailbox that was set (obligations pre[path]@Mail / @Rcpt)", l, path)
			}
		}
	}
}

// C05: WithHELO only rejects the empty string; a blank in the name adds an argument to EHLO.
func TestVerifWitnessC05Helo(t *testing.T) {
	srv := &vServer{Greeting: "220 ready\r\n", Respond: vOK}
	c, err := NewClient("mail.example.com", WithDialContextFunc(srv.Dial()), WithTLSPolicy(NoTLS), WithHELO("evil host"))
	if err != nil {
		return // refused: fine
	}
	_ = c.DialWithContext(context.Background())
	_ = c.Close()
	for _, l := range srv.Commands {
		if strings.HasPrefix(l, "EHLO") && strings.Count(l, " ") != 1 {
			t.Errorf("command %q carries more than one argument", l)
		}
	}
}

// C05: a quoted local part containing '@', ':' or ',' was put between the angle brackets unquoted:
// RCPT TO:<@evil.example:victim@example.com> is a source route to another mailbox under RFC 5321.
func TestVerifWitnessC05QuotedLocalPart(t *testing.T) {
	for _, rcpt := range []string{`"@evil.example:victim"@example.com`, `"a@b"@example.com`, `"a,b"@example.com`} {
		srv := &vServer{Greeting: "220 ready\r\n", Respond: vOK}
		c := vClient(t, srv)
		m := NewMsg()
		_ = m.From("s@b.c")
		if err := m.To(rcpt); err != nil {
			continue // the setter refuses the address: nothing is sent
		}
		m.SetBodyString(TypeTextPlain, "x")
		_ = c.Send(m)
		_ = c.Close()
		for _, l := range srv.Commands {
			if !strings.HasPrefix(strings.ToUpper(l), "RCPT TO:") {
				continue
			}
			path := l[strings.Index(l, "<")+1 : strings.LastIndex(l, ">")]
			at := strings.LastIndex(path, "@")
			if at < 0 || strings.ContainsAny(path[:at], `@:,;()[]\"`) {
				t.Errorf("recipient %s: command %q carries a path that does not denote the mailbox that was set", rcpt, l)
			}
		}
	}
}
