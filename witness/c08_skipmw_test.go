package mail

import (
	"bytes"
	"testing"
)

// C08 (post[count-reset]@WriteToSkipMiddleware): WriteToSkipMiddleware leaves headerCount at the
// number of header lines it rendered; a later signed WriteTo skips that many lines too many.
func TestVerifWitnessC08SkipMiddleware(t *testing.T) {
	key, cert, _, err := getDummyRSACryptoMaterial()
	if err != nil {
		t.Skip(err)
	}
	m := NewMsg()
	_ = m.From("a@b.c")
	_ = m.To("d@e.f")
	m.Subject("s")
	m.SetBodyString(TypeTextPlain, "hello")
	if _, err = m.WriteToSkipMiddleware(&bytes.Buffer{}, "none"); err != nil {
		t.Fatal(err)
	}
	if m.headerCount != 0 {
		t.Errorf("headerCount is %d after WriteToSkipMiddleware", m.headerCount)
	}
	m.sMIME = &SMIME{privateKey: key, certificate: cert}
	if _, err = m.WriteTo(&bytes.Buffer{}); err != nil {
		t.Errorf("signed render after WriteToSkipMiddleware fails: %v", err)
	}
}
