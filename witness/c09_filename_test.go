package mail

import (
	"strings"
	"testing"
)

// Witness for C09 (obligation mail.parseEMLAttachmentEmbed#slice:name[1:len(name)-1]):
// a Content-Disposition filename parameter shorter than two bytes.
func TestVerifWitnessC09Filename(t *testing.T) {
	for _, fn := range []string{"", "x"} {
		eml := "From: a@b.c\r\nTo: d@e.f\r\nSubject: s\r\nMIME-Version: 1.0\r\n" +
			"Content-Type: multipart/mixed; boundary=BB\r\n\r\n" +
			"--BB\r\nContent-Type: text/plain; charset=UTF-8\r\nContent-Transfer-Encoding: 7bit\r\n\r\nhello\r\n" +
			"--BB\r\nContent-Type: application/octet-stream\r\nContent-Transfer-Encoding: base64\r\n" +
			"Content-Disposition: attachment; filename=" + fn + "\r\n\r\nQUJD\r\n--BB--\r\n"
		func() {
			defer func() {
				if r := recover(); r != nil {
					t.Errorf("filename=%q: EMLToMsgFromString panicked: %v", fn, r)
				}
			}()
			_, _ = EMLToMsgFromReader(strings.NewReader(eml))
		}()
	}
}
