package mail

import (
	"bytes"
	"strings"
	"testing"
)

// C08 (post[lines]@writeHeader, empty-values return): an address list emptied by *IgnoreInvalid is
// counted as a header line although nothing is written, so signMessage skips one line too many
// and the signed entity loses its first header line.
func TestVerifWitnessC08HeaderCount(t *testing.T) {
	m := NewMsg()
	_ = m.From("a@b.c")
	_ = m.To("d@e.f")
	m.CcIgnoreInvalid("not an address")
	m.Subject("s")
	m.SetBodyString(TypeTextPlain, "hello")
	buf := &bytes.Buffer{}
	mw := &msgWriter{writer: buf, charset: m.charset, encoder: m.encoder}
	mw.writeMsg(m)
	lines := strings.Split(buf.String(), "\r\n")
	first := -1
	for i, l := range lines {
		if strings.HasPrefix(l, "Content-Transfer-Encoding:") || strings.HasPrefix(l, "Content-Type:") {
			first = i
			break
		}
	}
	if first < 0 {
		t.Fatal("no MIME header found")
	}
	if m.headerCount != first {
		t.Errorf("headerCount is %d but the entity to sign starts at line %d: signMessage would skip %d line(s) of it (line %d is %q)",
			m.headerCount, first, m.headerCount-first, first, lines[first])
	}
}
