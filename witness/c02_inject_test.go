package mail

import (
	"bytes"
	"strings"
	"testing"
)

// C02: a part description and a file content-id are written into MIME part headers verbatim.
func TestVerifWitnessC02Inject(t *testing.T) {
	m := NewMsg()
	_ = m.From("a@b.c")
	_ = m.To("d@e.f")
	m.SetBodyString(TypeTextPlain, "x", WithPartContentDescription("d\r\nX-Injected: 1"))
	m.AddAlternativeString(TypeTextHTML, "<p>x</p>")
	_ = m.EmbedReader("pic.png", strings.NewReader("PNG"), WithFileContentID("id>\r\nX-Injected2: 1"))
	var buf bytes.Buffer
	if _, err := m.WriteTo(&buf); err != nil {
		t.Fatal(err)
	}
	for _, line := range strings.Split(buf.String(), "\r\n") {
		if strings.HasPrefix(line, "X-Injected") {
			t.Errorf("caller-supplied text created a header field of its own: %q", line)
		}
	}
}

// SetGenHeader stored the caller's slice (and encoded into it): what the caller wrote into that slice afterwards
// reached the header block without passing the encoder, and a second SetGenHeader with the same slice rewrote the first
// header. Obligation: mail.Msg.SetGenHeader#post[own-copy].
func TestVerifWitnessC02SetGenHeaderKeepsCallersSlice(t *testing.T) {
	m := NewMsg()
	_ = m.From("a@example.com")
	_ = m.To("b@example.com")
	m.SetBodyString(TypeTextPlain, "x")
	vals := []string{"first"}
	m.SetGenHeader("X-One", vals...)
	vals[0] = "second\r\nX-Injected: yes"
	var buf bytes.Buffer
	if _, err := m.WriteTo(&buf); err != nil {
		t.Fatal(err)
	}
	if strings.Contains(buf.String(), "\r\nX-Injected: yes") {
		t.Fatalf("a write into the caller's slice after SetGenHeader injected a header field:\n%s", buf.String())
	}
	if !strings.Contains(buf.String(), "X-One: first\r\n") {
		t.Fatalf("X-One does not carry the value it was set to:\n%s", buf.String())
	}
	orig := []string{"café"}
	m.SetGenHeader("X-Two", orig...)
	if orig[0] != "café" {
		t.Fatalf("SetGenHeader rewrote the caller's slice: %q", orig[0])
	}
}
