package mail

import (
	"bytes"
	"strings"
	"testing"
)

// C02: a part description and a file content-id are written into MIME part headers verbatim.
func TestVerifWitnessC02Inject(t *testing.T) {
	m := NewMsg()
	_ = m.From("a@b.c")
	_ = m.To("d@e.f")
	m.SetBodyString(TypeTextPlain, "x", WithPartContentDescription("d\r\nX-Injected: 1"))
	m.AddAlternativeString(TypeTextHTML, "<p>x</p>")
	_ = m.EmbedReader("pic.png", strings.NewReader("PNG"), WithFileContentID("id>\r\nX-Injected2: 1"))
	var buf bytes.Buffer
	if _, err := m.WriteTo(&buf); err != nil {
		t.Fatal(err)
	}
	for _, line := range strings.Split(buf.String(), "\r\n") {
		if strings.HasPrefix(line, "X-Injected") {
			t.Errorf("caller-supplied text created a header field of its own: %q", line)
		}
	}
}
