package mail

import "testing"

// C06 (at[parsed-as-given]@SetAddrHeaderIgnoreInvalid): the *IgnoreInvalid setters RFC 2047-encoded the whole
// value - display name, angle brackets and address - before parsing it, so a valid address with a non-ASCII
// display name was dropped silently, and a non-ASCII local part ended up as an encoded-word in the envelope.
func TestVerifWitnessC06IgnoreInvalidKeepsValidAddresses(t *testing.T) {
	m := NewMsg()
	m.ToIgnoreInvalid("Jörg Müller <joerg@example.com>", "plain@example.com", "not an address")
	to := m.GetTo()
	if len(to) != 2 {
		t.Fatalf("ToIgnoreInvalid with two valid and one invalid value leaves %d addresses", len(to))
	}
	if to[0].Address != "joerg@example.com" || to[0].Name != "Jörg Müller" {
		t.Errorf("first address is %q <%s>", to[0].Name, to[0].Address)
	}
	m2 := NewMsg()
	m2.CcIgnoreInvalid("jürgen@example.com")
	if cc := m2.GetCc(); len(cc) != 1 || cc[0].Address != "jürgen@example.com" {
		t.Errorf("address with a non-ASCII local part became %v", cc)
	}
}
