package mail

import (
	"bytes"
	"strings"
	"testing"
)

// verifSignedEntity renders m the way signMessage does (signing in progress, no signature part yet) and
// returns the entity that gets hashed: everything after the message header lines.
func verifSignedEntity(t *testing.T, m *Msg) string {
	t.Helper()
	m.sMIME.inProgress = true
	buf := &bytes.Buffer{}
	mw := &msgWriter{writer: buf, charset: m.charset, encoder: m.encoder}
	mw.writeMsg(m)
	m.sMIME.inProgress = false
	if mw.err != nil {
		t.Fatal(mw.err)
	}
	rest := buf.String()
	for i := 0; i < m.headerCount; i++ {
		k := strings.Index(rest, "\r\n")
		if k < 0 {
			t.Fatal("header count beyond the rendered message")
		}
		rest = rest[k+2:]
	}
	m.headerCount = 0
	return rest
}

// verifFirstSignedPart extracts the first body part of the emitted multipart/signed message, byte-exact.
func verifFirstSignedPart(t *testing.T, rendered string) string {
	t.Helper()
	k := strings.Index(rendered, "boundary=")
	if k < 0 {
		t.Fatal("no boundary in the rendered message")
	}
	b := rendered[k+len("boundary="):]
	b = b[:strings.Index(b, "\r\n")]
	delim := "--" + strings.Trim(b, `"`)
	body := rendered[strings.Index(rendered, "\r\n\r\n")+4:]
	first := strings.Index(body, delim+"\r\n")
	if first < 0 {
		t.Fatal("opening delimiter not found")
	}
	body = body[first+len(delim)+2:]
	end := strings.Index(body, "\r\n"+delim)
	if end < 0 {
		t.Fatal("second delimiter not found")
	}
	return body[:end]
}

// C08 (signature parts must not count as content when the multipart layers are decided; a part is
// rendered with the same headers at every depth): the entity that is hashed and the entity that is
// emitted as first part of multipart/signed differ for these shapes, so the signature cannot verify.
func TestVerifWitnessC08SignedEntityIsEmittedEntity(t *testing.T) {
	keypair, err := getDummyKeyPairTLS()
	if err != nil {
		t.Fatal(err)
	}
	shapes := map[string]func(m *Msg){
		"lone attachment": func(m *Msg) { _ = m.AttachReader("a.txt", strings.NewReader("file content")) },
		"lone embed":      func(m *Msg) { _ = m.EmbedReader("e.png", strings.NewReader("embed content")) },
		"part with description": func(m *Msg) {
			m.SetBodyString(TypeTextPlain, "hello", WithPartContentDescription("the body"))
		},
		"body and attachment": func(m *Msg) {
			m.SetBodyString(TypeTextPlain, "hello")
			_ = m.AttachReader("a.txt", strings.NewReader("file content"))
		},
	}
	for name, build := range shapes {
		m := NewMsg()
		_ = m.From("a@b.c")
		_ = m.To("d@e.f")
		m.Subject("s")
		build(m)
		if err = m.SignWithTLSCertificate(keypair); err != nil {
			t.Fatal(err)
		}
		hashed := verifSignedEntity(t, m)
		out := &bytes.Buffer{}
		if _, err = m.WriteTo(out); err != nil {
			t.Fatal(err)
		}
		emitted := verifFirstSignedPart(t, out.String())
		// the entity is hashed with its trailing line break, the part is delimited without it
		if strings.TrimSuffix(hashed, "\r\n") != strings.TrimSuffix(emitted, "\r\n") {
			t.Errorf("%s: the hashed entity differs from the emitted one\n--- hashed:\n%s\n--- emitted:\n%s", name, hashed, emitted)
		}
	}
}

// C08 (at[part-headers-same-bytes-at-every-depth]@writePart / addFiles), OPEN finding: at nesting depth 0 a part's
// MIME headers are written with writeHeader, which folds long values; inside a multipart they are written by
// multipart.Writer.CreatePart, which does not fold. A signed single-part message with a long description (or a
// signed lone attachment with a long file name containing blanks) is therefore hashed with folded and emitted
// with unfolded header lines: the signature cannot verify. (Folding the part headers consistently would change
// output that the pinned tests compare byte for byte.)
func TestVerifWitnessC08LongPartHeader(t *testing.T) {
	keypair, err := getDummyKeyPairTLS()
	if err != nil {
		t.Fatal(err)
	}
	m := NewMsg()
	_ = m.From("a@b.c")
	_ = m.To("d@e.f")
	m.Subject("s")
	m.SetBodyString(TypeTextPlain, "hello", WithPartContentDescription("a description of the body that is long enough to be folded by writeHeader at depth zero"))
	if err = m.SignWithTLSCertificate(keypair); err != nil {
		t.Fatal(err)
	}
	hashed := verifSignedEntity(t, m)
	out := &bytes.Buffer{}
	if _, err = m.WriteTo(out); err != nil {
		t.Fatal(err)
	}
	emitted := verifFirstSignedPart(t, out.String())
	if strings.TrimSuffix(hashed, "\r\n") != strings.TrimSuffix(emitted, "\r\n") {
		t.Errorf("the hashed entity differs from the emitted one\n--- hashed:\n%s\n--- emitted:\n%s", hashed, emitted)
	}
}
