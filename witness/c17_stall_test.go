package mail

import (
	"context"
	"testing"
	"time"
)

// Witnesses for C17: the server stops responding and the call never returns
// although a 300 ms timeout is configured (observer waits 10x).
func TestVerifWitnessC17Dial(t *testing.T) {
	cases := []struct {
		name     string
		greeting string
		resp     func(verb, line string, n int) string
	}{
		{"silent before greeting (pre[armed]@smtp.NewClient)", "", vOK},
		{"silent after EHLO (pre[armed]@Hello)", "220 ready\r\n", func(v, l string, n int) string {
			if v == "EHLO" {
				return ""
			}
			return vOK(v, l, n)
		}},
	}
	for _, tc := range cases {
		srv := &vServer{Greeting: tc.greeting, Respond: tc.resp}
		c, err := NewClient("mail.example.com", WithDialContextFunc(srv.Dial()), WithTLSPolicy(NoTLS), WithTimeout(300*time.Millisecond))
		if err != nil {
			t.Fatal(err)
		}
		if !vWithin(3*time.Second, func() { _ = c.DialWithContext(context.Background()) }) {
			t.Errorf("%s: DialWithContext still blocked after 10x the configured timeout", tc.name)
		}
	}
}

// checkConn sends NOOP before it refreshes the deadline: after an idle period the
// old absolute deadline has expired (or, before the dial fix, none was ever set).
func TestVerifWitnessC17Noop(t *testing.T) {
	stall := false
	srv := &vServer{Greeting: "220 ready\r\n", Respond: func(v, l string, n int) string {
		if v == "NOOP" && stall {
			return ""
		}
		return vOK(v, l, n)
	}}
	c, err := NewClient("mail.example.com", WithDialContextFunc(srv.Dial()), WithTLSPolicy(NoTLS), WithTimeout(300*time.Millisecond))
	if err != nil {
		t.Fatal(err)
	}
	if err = c.DialWithContext(context.Background()); err != nil {
		t.Fatal(err)
	}
	stall = true
	m := NewMsg()
	_ = m.From("a@b.c")
	_ = m.To("d@e.f")
	m.SetBodyString(TypeTextPlain, "x")
	if !vWithin(3*time.Second, func() { _ = c.Send(m) }) {
		t.Errorf("Send still blocked in NOOP after 10x the configured timeout")
	}
}
