package mail

import (
	"context"
	"errors"
	"io"
	"strings"
	"testing"
	"time"
)

func vMsg(to ...string) *Msg {
	m := NewMsg()
	_ = m.From("a@b.c")
	_ = m.To(to...)
	m.Subject("s")
	m.SetBodyString(TypeTextPlain, "hello")
	return m
}

func vClient(t *testing.T, srv *vServer) *Client {
	c, err := NewClient("mail.example.com", WithDialContextFunc(srv.Dial()), WithTLSPolicy(NoTLS), WithTimeout(2*time.Second))
	if err != nil {
		t.Fatal(err)
	}
	if err = c.DialWithContext(context.Background()); err != nil {
		t.Fatal(err)
	}
	return c
}

// C03 / C04: an attachment producer fails after DATA was accepted. Send reports the
// failure, but the next command implicitly terminates DATA and the server commits a fragment.
func TestVerifWitnessC03Fragment(t *testing.T) {
	srv := &vServer{Greeting: "220 ready\r\n", Respond: vOK}
	c := vClient(t, srv)
	m := vMsg("d@e.f")
	_ = m.AttachReader("x.bin", failingReader{}) // buffered at attach time; use a failing writeFunc instead
	m2 := vMsg("d@e.f")
	m2.SetBodyWriter(TypeTextPlain, func(w io.Writer) (int64, error) {
		_, _ = w.Write([]byte("partial"))
		return 7, errors.New("producer failed")
	})
	err := c.Send(m2)
	if err == nil {
		t.Fatalf("Send unexpectedly succeeded")
	}
	if m2.IsDelivered() {
		t.Errorf("IsDelivered() is true for a message whose rendering failed")
	}
	_ = c.Close()
	time.Sleep(50 * time.Millisecond)
	if n := len(srv.Committed); n != 0 {
		t.Errorf("Send returned %q but the server committed %d message(s); fragment ends with %q", err, n, tail(srv.Committed[0], 40))
	}
}

type failingReader struct{}

func (failingReader) Read(p []byte) (int, error) { return 0, io.ErrUnexpectedEOF }

func tail(s string, n int) string {
	if len(s) > n {
		return s[len(s)-n:]
	}
	return s
}

// C04: DATA is refused for the first message; the transaction stays open and the MAIL of the
// second message arrives inside it.
func TestVerifWitnessC04DataRefused(t *testing.T) {
	srv := &vServer{Greeting: "220 ready\r\n", Respond: func(v, l string, n int) string {
		if v == "DATA" && n == 0 {
			return "451 try later\r\n"
		}
		return vOK(v, l, n)
	}}
	c := vClient(t, srv)
	_ = c.Send(vMsg("d@e.f"), vMsg("g@h.i"))
	_ = c.Close()
	if len(srv.Illegal) != 0 {
		t.Errorf("commands sent in an illegal transaction state: %q (all commands: %q)", srv.Illegal, srv.Commands)
	}
}

// C04: a recipient is rejected and the RSET that should abandon the transaction fails.
func TestVerifWitnessC04ResetFails(t *testing.T) {
	srv := &vServer{Greeting: "220 ready\r\n", Respond: func(v, l string, n int) string {
		if v == "RCPT" && n == 0 {
			return "550 no such user\r\n"
		}
		if v == "RSET" && n == 0 {
			return "451 cannot reset\r\n"
		}
		return vOK(v, l, n)
	}}
	c := vClient(t, srv)
	_ = c.Send(vMsg("d@e.f"), vMsg("g@h.i"))
	_ = c.Close()
	if len(srv.Illegal) != 0 {
		t.Errorf("commands sent in an illegal transaction state: %q (all commands: %q)", srv.Illegal, strings.Join(srv.Commands, " | "))
	}
}
