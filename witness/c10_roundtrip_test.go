package mail

import (
	"bytes"
	"strings"
	"testing"
)

// C10 (post[no-structural-header]@parseEMLHeaders): the parser copies the Content-Type of the parsed
// message into the generic headers of the Msg; rendering the parsed Msg then writes that stale header
// next to the Content-Type the renderer derives from the parts (for multipart/alternative with the
// boundary of the original message, contradicting the new one).
func TestVerifWitnessC10DuplicateContentType(t *testing.T) {
	for _, shape := range []string{"plain", "alternative", "attachment"} {
		m := NewMsg()
		_ = m.From("a@b.c")
		_ = m.To("d@e.f")
		m.Subject("s")
		m.SetBodyString(TypeTextPlain, "hello")
		if shape == "alternative" {
			m.AddAlternativeString(TypeTextHTML, "<p>hello</p>")
		}
		if shape == "attachment" {
			_ = m.AttachReader("a.txt", strings.NewReader("file"))
		}
		first := &bytes.Buffer{}
		if _, err := m.WriteTo(first); err != nil {
			t.Fatal(err)
		}
		parsed, err := EMLToMsgFromReader(bytes.NewReader(first.Bytes()))
		if err != nil {
			t.Fatal(err)
		}
		second := &bytes.Buffer{}
		if _, err = parsed.WriteTo(second); err != nil {
			t.Fatal(err)
		}
		head := strings.SplitN(second.String(), "\r\n\r\n", 2)[0]
		n := 0
		for _, line := range strings.Split(head, "\r\n") {
			if strings.HasPrefix(strings.ToLower(line), "content-type:") {
				n++
			}
		}
		if n != 1 {
			t.Errorf("%s: the re-rendered message has %d Content-Type fields in its header block", shape, n)
		}
	}
}
