package mail

import (
	"bytes"
	"crypto"
	"errors"
	"io"
	"testing"
)

type vFlakySigner struct {
	crypto.Signer
	fail bool
}

func (s *vFlakySigner) Sign(rand io.Reader, digest []byte, opts crypto.SignerOpts) ([]byte, error) {
	if s.fail {
		s.fail = false
		return nil, errors.New("HSM temporarily unavailable")
	}
	return s.Signer.Sign(rand, digest, opts)
}

// C08 (post[headerCount0]@WriteTo, return after a signing error): headerCount is not reset when
// signing fails, so the next render skips twice as many lines of the pre-rendered message.
func TestVerifWitnessC08SignRetry(t *testing.T) {
	key, cert, _, err := getDummyRSACryptoMaterial()
	if err != nil {
		t.Skip(err)
	}
	signer := &vFlakySigner{Signer: key.(crypto.Signer), fail: true}
	m := NewMsg()
	_ = m.From("a@b.c")
	_ = m.To("d@e.f")
	m.Subject("s")
	m.SetBodyString(TypeTextPlain, "hello")
	m.sMIME = &SMIME{privateKey: signer, certificate: cert}
	if _, err = m.WriteTo(&bytes.Buffer{}); err == nil {
		t.Fatal("first render should fail in the signer")
	}
	if m.headerCount != 0 {
		t.Errorf("headerCount is %d after a failed WriteTo (must be 0 before the next pre-render)", m.headerCount)
	}
	m.sMIME.privateKey = key // the key is usable again
	if _, err = m.WriteTo(&bytes.Buffer{}); err != nil {
		t.Errorf("second render fails although signing works again: %v", err)
	}
}
