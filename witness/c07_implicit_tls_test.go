package mail

import (
	"context"
	"testing"
	"time"
)

// C07, open finding: WithSSL together with WithDialContextFunc. The implicit-TLS dialer is only installed when no dial
// function was configured; with one, useSSL still switches STARTTLS off, so the whole session - EHLO, MAIL, RCPT, DATA and
// the message - travels on whatever the caller's dial function returned, in clear for a plain TCP dialer.
// Obligation: mail.Client.DialToSMTPClientWithContext#at[implicit-tls-means-tls-transport].
func TestVerifWitnessC07ImplicitTLSWithCustomDialer(t *testing.T) {
	srv := &vServer{Greeting: "220 ready\r\n", Respond: vOK}
	c, err := NewClient("mx.example.test", WithSSL(), WithDialContextFunc(srv.Dial()), WithHELO("client.example.test"), WithTimeout(2*time.Second))
	if err != nil {
		t.Fatal(err)
	}
	ctx, cancel := context.WithTimeout(context.Background(), 3*time.Second)
	defer cancel()
	derr := c.DialWithContext(ctx)
	t.Logf("dial: %v", derr)
	_ = c.Close()
	srv.mu.Lock()
	defer srv.mu.Unlock()
	if len(srv.Commands) > 0 {
		t.Fatalf("implicit TLS is configured, yet the server read these lines in clear: %q", srv.Commands)
	}
}
