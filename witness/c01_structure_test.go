package mail

import (
	"bytes"
	"io"
	"mime"
	"mime/multipart"
	netmail "net/mail"
	"strings"
	"testing"
)

// C01 (pre[single-top-leaf]@addFiles in writeMsg): a message without body parts that has one embed and
// one attachment gets no multipart layer at all; the attachment's header block is written after the
// body of the embed and becomes content. An independent reader finds one leaf instead of two.
func TestVerifWitnessC01EmbedPlusAttachment(t *testing.T) {
	m := NewMsg()
	_ = m.From("a@b.c")
	_ = m.To("d@e.f")
	m.Subject("s")
	_ = m.EmbedReader("e.png", strings.NewReader("EMBED"))
	_ = m.AttachReader("a.txt", strings.NewReader("ATTACH"))
	buf := &bytes.Buffer{}
	if _, err := m.WriteTo(buf); err != nil {
		t.Fatal(err)
	}
	parsed, err := netmail.ReadMessage(bytes.NewReader(buf.Bytes()))
	if err != nil {
		t.Fatal(err)
	}
	mediaType, params, err := mime.ParseMediaType(parsed.Header.Get("Content-Type"))
	if err != nil {
		t.Fatal(err)
	}
	leaves := 0
	if strings.HasPrefix(mediaType, "multipart/") {
		mr := multipart.NewReader(parsed.Body, params["boundary"])
		for {
			p, perr := mr.NextPart()
			if perr == io.EOF {
				break
			}
			if perr != nil {
				t.Fatal(perr)
			}
			_, _ = io.Copy(io.Discard, p)
			leaves++
		}
	} else {
		leaves = 1
	}
	if leaves != 2 {
		t.Errorf("the message has one embed and one attachment, an independent reader finds %d leaf/leaves (top-level type %s)", leaves, mediaType)
	}
}
