package mail

import (
	"bytes"
	"io"
	"mime"
	"mime/multipart"
	netmail "net/mail"
	"strings"
	"testing"
)

// C01 (pre[single-top-leaf]@addFiles in writeMsg): a message without body parts that has one embed and
// one attachment gets no multipart layer at all; the attachment's header block is written after the
// body of the embed and becomes content. An independent reader finds one leaf instead of two.
func TestVerifWitnessC01EmbedPlusAttachment(t *testing.T) {
	m := NewMsg()
	_ = m.From("a@b.c")
	_ = m.To("d@e.f")
	m.Subject("s")
	_ = m.EmbedReader("e.png", strings.NewReader("EMBED"))
	_ = m.AttachReader("a.txt", strings.NewReader("ATTACH"))
	buf := &bytes.Buffer{}
	if _, err := m.WriteTo(buf); err != nil {
		t.Fatal(err)
	}
	parsed, err := netmail.ReadMessage(bytes.NewReader(buf.Bytes()))
	if err != nil {
		t.Fatal(err)
	}
	mediaType, params, err := mime.ParseMediaType(parsed.Header.Get("Content-Type"))
	if err != nil {
		t.Fatal(err)
	}
	leaves := 0
	if strings.HasPrefix(mediaType, "multipart/") {
		mr := multipart.NewReader(parsed.Body, params["boundary"])
		for {
			p, perr := mr.NextPart()
			if perr == io.EOF {
				break
			}
			if perr != nil {
				t.Fatal(perr)
			}
			_, _ = io.Copy(io.Discard, p)
			leaves++
		}
	} else {
		leaves = 1
	}
	if leaves != 2 {
		t.Errorf("the message has one embed and one attachment, an independent reader finds %d leaf/leaves (top-level type %s)", leaves, mediaType)
	}
}

// A File's Content-Transfer-Encoding header was written on the first render and kept: after File.Enc changed, later
// renders announced the old encoding over a body in the new one. Obligation:
// mail.msgWriter.addFiles#at[file-encoding-announced-is-applied].
func TestVerifWitnessC01FileEncodingAnnouncedIsApplied(t *testing.T) {
	m := NewMsg()
	_ = m.From("a@example.com")
	_ = m.To("b@example.com")
	m.SetBodyString(TypeTextPlain, "x")
	if err := m.AttachReader("a.txt", strings.NewReader("hello = world")); err != nil {
		t.Fatal(err)
	}
	var first bytes.Buffer
	if _, err := m.WriteTo(&first); err != nil {
		t.Fatal(err)
	}
	m.GetAttachments()[0].Enc = EncodingQP
	var second bytes.Buffer
	if _, err := m.WriteTo(&second); err != nil {
		t.Fatal(err)
	}
	out := second.String()
	i := strings.Index(out, `filename="a.txt"`)
	if i < 0 {
		t.Fatalf("attachment not found:\n%s", out)
	}
	j := strings.LastIndex(out[:i], "\r\n--")
	k := strings.Index(out[i:], "\r\n\r\n")
	hdr := out[j : i+k]
	body := out[i+k+4:]
	if strings.Contains(body, "hello =3D world") && !strings.Contains(hdr, "Content-Transfer-Encoding: quoted-printable") {
		t.Fatalf("the attachment is quoted-printable but announced otherwise:\n%s", hdr)
	}
	if !strings.Contains(body, "hello =3D world") {
		t.Fatalf("expected a quoted-printable body on the second render:\n%s", body)
	}
}
