package mail

// Scripted in-process SMTP server used by the witness tests of /verif (injected
// with `go test -overlay`, never part of the repository).

import (
	"bufio"
	"context"
	"net"
	"strings"
	"sync"
	"sync/atomic"
	"time"
)

type vTrackConn struct {
	net.Conn
	closed *atomic.Bool
}

func (c *vTrackConn) Close() error {
	c.closed.Store(true)
	return c.Conn.Close()
}

type vServer struct {
	mu        sync.Mutex
	Commands  []string // command lines received outside DATA
	Committed []string // message contents accepted at end-of-data
	Opened    int
	Illegal   []string // commands that are illegal in the RFC 5321 transaction state they arrived in
	conns     []*atomic.Bool
	// Respond decides the reply for the n-th (0-based) occurrence of a command verb.
	// Return "" to stall forever, "!drop" to close the connection.
	Respond func(verb, line string, n int) string
	Greeting string // "" = stall before greeting
}

func (s *vServer) OpenConns() int {
	s.mu.Lock()
	defer s.mu.Unlock()
	n := 0
	for _, c := range s.conns {
		if !c.Load() {
			n++
		}
	}
	return n
}

func (s *vServer) Dial() DialContextFunc {
	return func(ctx context.Context, network, address string) (net.Conn, error) {
		cl, sv := net.Pipe()
		closed := &atomic.Bool{}
		s.mu.Lock()
		s.Opened++
		s.conns = append(s.conns, closed)
		s.mu.Unlock()
		go s.serve(sv)
		return &vTrackConn{Conn: cl, closed: closed}, nil
	}
}

func vVerb(line string) string {
	u := strings.ToUpper(line)
	for _, v := range []string{"EHLO", "HELO", "MAIL", "RCPT", "DATA", "RSET", "NOOP", "QUIT", "STARTTLS", "AUTH", "VRFY"} {
		if strings.HasPrefix(u, v) {
			return v
		}
	}
	return "OTHER"
}

func (s *vServer) serve(c net.Conn) {
	defer c.Close()
	if s.Greeting == "" {
		time.Sleep(time.Hour)
		return
	}
	w := func(r string) bool {
		_, err := c.Write([]byte(r))
		return err == nil
	}
	if !w(s.Greeting) {
		return
	}
	rd := bufio.NewReader(c)
	counts := map[string]int{}
	txn, accepted := 0, 0 // reference automaton: 0 idle, 1 MAIL accepted, 2 RCPT seen
	for {
		line, err := rd.ReadString('\n')
		if err != nil {
			return
		}
		line = strings.TrimRight(line, "\r\n")
		verb := vVerb(line)
		s.mu.Lock()
		s.Commands = append(s.Commands, line)
		s.mu.Unlock()
		switch {
		case verb == "MAIL" && txn != 0, verb == "RCPT" && txn == 0, verb == "DATA" && (txn != 2 || accepted == 0):
			s.mu.Lock()
			s.Illegal = append(s.Illegal, line)
			s.mu.Unlock()
		}
		reply := s.Respond(verb, line, counts[verb])
		counts[verb]++
		ok := strings.HasPrefix(reply, "2") || strings.HasPrefix(reply, "3")
		switch {
		case verb == "MAIL" && ok:
			txn, accepted = 1, 0
		case verb == "RCPT" && ok:
			txn = 2
			accepted++
		case verb == "RCPT":
			if txn == 1 {
				txn = 2
			}
		case (verb == "RSET" || verb == "EHLO" || verb == "HELO") && ok:
			txn, accepted = 0, 0
		}
		if reply == "!drop" {
			return
		}
		if reply == "" {
			time.Sleep(time.Hour)
			return
		}
		if !w(reply) {
			return
		}
		if verb == "DATA" && strings.HasPrefix(reply, "354") {
			var sb strings.Builder
			for {
				l, err := rd.ReadString('\n')
				if err != nil {
					return
				}
				if l == ".\r\n" {
					break
				}
				sb.WriteString(l)
			}
			s.mu.Lock()
			s.Committed = append(s.Committed, sb.String())
			s.mu.Unlock()
			txn, accepted = 0, 0
			reply := s.Respond("EOD", "", counts["EOD"])
			counts["EOD"]++
			if reply == "!drop" {
				return
			}
			if reply == "" {
				time.Sleep(time.Hour)
				return
			}
			if !w(reply) {
				return
			}
		}
	}
}

// vOK is the default well-behaved server.
func vOK(verb, line string, n int) string {
	switch verb {
	case "EHLO":
		return "250-localhost\r\n250-8BITMIME\r\n250-DSN\r\n250 ENHANCEDSTATUSCODES\r\n"
	case "HELO":
		return "250 localhost\r\n"
	case "DATA":
		return "354 go ahead\r\n"
	case "QUIT":
		return "221 bye\r\n"
	case "EOD":
		return "250 2.0.0 queued\r\n"
	}
	return "250 2.0.0 OK\r\n"
}

// vWithin runs f and reports whether it returned within d.
func vWithin(d time.Duration, f func()) bool {
	done := make(chan struct{})
	go func() { f(); close(done) }()
	select {
	case <-done:
		return true
	case <-time.After(d):
		return false
	}
}
