package mail

import (
	"bytes"
	"errors"
	"strings"
	"testing"
)

// C11 (maporder@writePreformattedGenHeader): several preformatted headers are written in Go map
// order, so two renders of the same message differ.
func TestVerifWitnessC11PreformOrder(t *testing.T) {
	m := NewMsg()
	_ = m.From("a@b.c")
	_ = m.To("d@e.f")
	m.SetBodyString(TypeTextPlain, "hello")
	for _, h := range []Header{"X-A", "X-B", "X-C", "X-D", "X-E", "X-F"} {
		m.SetGenHeaderPreformatted(h, "v")
	}
	first := &bytes.Buffer{}
	if _, err := m.WriteTo(first); err != nil {
		t.Fatal(err)
	}
	for i := 0; i < 30; i++ {
		next := &bytes.Buffer{}
		if _, err := m.WriteTo(next); err != nil {
			t.Fatal(err)
		}
		if next.String() != first.String() {
			t.Fatalf("render %d differs from the first render (preformatted header order)", i+2)
		}
	}
}

// C11 (maporder@addFiles, depth 0): a message that consists of one attachment only writes the
// attachment's MIME headers in Go map order.
func TestVerifWitnessC11LoneAttachmentOrder(t *testing.T) {
	m := NewMsg()
	_ = m.From("a@b.c")
	_ = m.To("d@e.f")
	_ = m.AttachReader("a.txt", strings.NewReader("content"), WithFileDescription("d"))
	first := &bytes.Buffer{}
	if _, err := m.WriteTo(first); err != nil {
		t.Fatal(err)
	}
	for i := 0; i < 30; i++ {
		next := &bytes.Buffer{}
		if _, err := m.WriteTo(next); err != nil {
			t.Fatal(err)
		}
		if next.String() != first.String() {
			t.Fatalf("render %d differs from the first render (file header order)", i+2)
		}
	}
}

// C11 (at[encoding-stable]@addFiles): the transfer encoding applied to a file on the second render
// is base64 whatever the file asked for, under the Content-Transfer-Encoding header of the first.
func TestVerifWitnessC11FileEncodingStable(t *testing.T) {
	m := NewMsg()
	_ = m.From("a@b.c")
	_ = m.To("d@e.f")
	m.SetBodyString(TypeTextPlain, "hello")
	_ = m.AttachReader("a.txt", strings.NewReader("plain content of the file"), WithFileEncoding(NoEncoding))
	first := &bytes.Buffer{}
	if _, err := m.WriteTo(first); err != nil {
		t.Fatal(err)
	}
	second := &bytes.Buffer{}
	if _, err := m.WriteTo(second); err != nil {
		t.Fatal(err)
	}
	if first.String() != second.String() {
		t.Errorf("second render differs from the first: file content is %v in the first and %v in the second render",
			strings.Contains(first.String(), "plain content of the file"), strings.Contains(second.String(), "plain content of the file"))
	}
}

type verifFailAfter struct {
	n   int
	buf bytes.Buffer
}

func (w *verifFailAfter) Write(p []byte) (int, error) {
	if w.buf.Len()+len(p) > w.n {
		k := w.n - w.buf.Len()
		if k < 0 {
			k = 0
		}
		w.buf.Write(p[:k])
		return k, errors.New("sink failed")
	}
	return w.buf.Write(p)
}

// C11 (post[rewound]@fileFromReader$1): a render that fails while a file is being copied leaves the
// file's reader in the middle, so the next (successful) render carries only the rest of the file.
func TestVerifWitnessC11ProducerRewound(t *testing.T) {
	content := strings.Repeat("0123456789", 400)
	for _, kind := range []string{"reader", "readseeker"} {
		m := NewMsg()
		_ = m.From("a@b.c")
		_ = m.To("d@e.f")
		m.SetBodyString(TypeTextPlain, "hello")
		if kind == "reader" {
			_ = m.AttachReader("a.txt", strings.NewReader(content), WithFileEncoding(NoEncoding))
		} else {
			m.AttachReadSeeker("a.txt", strings.NewReader(content), WithFileEncoding(NoEncoding))
		}
		ok := &bytes.Buffer{}
		if _, err := m.WriteTo(ok); err != nil {
			t.Fatal(err)
		}
		if _, err := m.WriteTo(&verifFailAfter{n: 1500}); err == nil {
			t.Fatal("failing sink not reported")
		}
		again := &bytes.Buffer{}
		if _, err := m.WriteTo(again); err != nil {
			t.Fatal(err)
		}
		if again.String() != ok.String() {
			t.Errorf("%s: render after a failed render differs: %d bytes instead of %d", kind, again.Len(), ok.Len())
		}
	}
}

// C11: a message with a PGP type and no caller-fixed boundary got a fresh random boundary for its PGP layer on
// every render (the only layer whose boundary was not cached in the Msg)
func TestVerifWitnessC11PGPBoundaryStable(t *testing.T) {
	for _, pt := range []PGPType{PGPEncrypt, PGPSignature} {
		m := NewMsg(WithPGPType(pt))
		_ = m.From("a@b.c")
		_ = m.To("d@e.f")
		m.Subject("s")
		m.SetDate()
		m.SetMessageID()
		m.SetBodyString(TypeTextPlain, "hello")
		m.AddAlternativeString(TypeTextHTML, "<p>hello</p>")
		first, second := &bytes.Buffer{}, &bytes.Buffer{}
		if _, err := m.WriteTo(first); err != nil {
			t.Fatal(err)
		}
		if _, err := m.WriteTo(second); err != nil {
			t.Fatal(err)
		}
		if first.String() != second.String() {
			t.Errorf("PGP type %d: the second render differs from the first", pt)
		}
	}
}

// C11: a read-seeker that is not at its start when it is attached: the first render carries the rest of it, the
// producer then rewound to offset 0, so every later render carried the whole content
func TestVerifWitnessC11ReadSeekerPosition(t *testing.T) {
	rs := strings.NewReader("HEADER|payload of the attachment")
	skip := make([]byte, 7)
	if _, err := rs.Read(skip); err != nil {
		t.Fatal(err)
	}
	m := NewMsg()
	_ = m.From("a@b.c")
	_ = m.To("d@e.f")
	m.Subject("s")
	m.SetDate()
	m.SetMessageID()
	m.SetBodyString(TypeTextPlain, "hello")
	m.AttachReadSeeker("a.txt", rs, WithFileEncoding(NoEncoding))
	first, second := &bytes.Buffer{}, &bytes.Buffer{}
	if _, err := m.WriteTo(first); err != nil {
		t.Fatal(err)
	}
	if _, err := m.WriteTo(second); err != nil {
		t.Fatal(err)
	}
	if first.String() != second.String() {
		t.Errorf("the second render differs from the first (HEADER| in first: %v, in second: %v)",
			strings.Contains(first.String(), "HEADER|"), strings.Contains(second.String(), "HEADER|"))
	}
}
